(** C04: template substitution against a structural specification. [tinst s pick t] is template [t] with
    every pattern variable [x] bound in table [s] replaced by [pick] of its binding and every other symbol
    and literal kept; it has no fuel, no index loop and no lists of results. For templates without inner
    ellipses ([flatt]):
    - [substitute] yields exactly [tinst] with the first match of every variable;
    - the k-th further copy of an ellipsis sub-template is [tinst] with the k-th further match of every
      variable, and the copies stop at the first index where a variable has no further match;
    - so `(t ...)` is the first copy followed by one copy per further matched item, in order. *)
From Coq Require Import ZArith NArith List Bool Lia.
From RV Require Import Model.Common Model.Datum Model.Macro Proofs.Basics Proofs.MacroProofs.
Import ListNotations.

Inductive flatt : template -> Prop :=
  | ft_id : forall x l, flatt (TId x l)
  | ft_lit : forall p l, flatt (TLit p l)
  | ft_list : forall els l, Forall (fun e => snd e = false /\ flatt (fst e)) els -> flatt (TList els l)
  | ft_vec : forall els l, Forall (fun e => snd e = false /\ flatt (fst e)) els -> flatt (TVecT els l).

Fixpoint tinst (s : subst) (pick : datum * list datum -> option datum) (t : template) : option datum :=
  let items := fix go (els : list (template * bool)) : option (list datum) :=
    match els with
    | [] => Some []
    | (t', _) :: r =>
        match tinst s pick t' with
        | None => None
        | Some d => match go r with Some l => Some (d :: l) | None => None end
        end
    end in
  match t with
  | TId x _ => match subst_get s x with Some b => pick b | None => Some (DSym x None) end
  | TLit p _ => Some (DPrim p None)
  | TList els _ => option_map dlist (items els)
  | TVecT els _ => option_map (fun v => DVec v None) (items els)
  end.

Definition tinst_items (s : subst) (pick : datum * list datum -> option datum) : list (template * bool) -> option (list datum) :=
  fix go (els : list (template * bool)) : option (list datum) :=
    match els with
    | [] => Some []
    | (t', _) :: r =>
        match tinst s pick t' with
        | None => None
        | Some d => match go r with Some l => Some (d :: l) | None => None end
        end
    end.

Lemma tinst_list : forall s pick els l, tinst s pick (TList els l) = option_map dlist (tinst_items s pick els).
Proof. reflexivity. Qed.
Lemma tinst_vec : forall s pick els l, tinst s pick (TVecT els l) = option_map (fun v => DVec v None) (tinst_items s pick els).
Proof. reflexivity. Qed.

(** the first match / the idx-th further match of a variable *)
Definition pick_first (b : datum * list datum) : option datum := Some (fst b).
Definition pick_further (idx : nat) (b : datum * list datum) : option datum :=
  match snd b with [] => None | _ => nth_error (snd b) idx end.

(** ** substitude_ellipsis_item *)
Lemma subst_item_spec : forall fuel t s idx o, subst_item fuel t s idx = Ok o -> o = tinst s (pick_further idx) t.
Proof.
  induction fuel as [|f IH]; intros t s idx o H; cbn [subst_item] in H; [discriminate|].
  assert (G : forall els r,
             (fix go (els : list (template * bool)) : res (option (list datum)) :=
                match els with
                | [] => Ok (Some [])
                | (t', _) :: r =>
                    do o <- subst_item f t' s idx ;;
                    match o with
                    | None => Ok None
                    | Some d => do os <- go r ;; Ok (match os with Some l => Some (d :: l) | None => None end)
                    end
                end) els = Ok r -> r = tinst_items s (pick_further idx) els).
  { induction els as [|[t' b] r0 IHr]; intros r E.
    - injection E as <-. reflexivity.
    - apply bind_Ok_inv in E. destruct E as [o1 [E1 E]]. apply IH in E1. cbn [tinst_items]. rewrite <- E1.
      destruct o1 as [d|]; [|now injection E as <-].
      apply bind_Ok_inv in E. destruct E as [os [E2 E]]. apply IHr in E2. rewrite <- E2. now injection E as <-. }
  destruct t as [els l|els l|x l|p l].
  - apply bind_Ok_inv in H. destruct H as [o1 [E1 H]]. apply G in E1. injection H as <-. rewrite tinst_list, <- E1. reflexivity.
  - apply bind_Ok_inv in H. destruct H as [o1 [E1 H]]. apply G in E1. injection H as <-. rewrite tinst_vec, <- E1. reflexivity.
  - cbn. destruct (subst_get s x) as [[d v]|]; injection H as <-; reflexivity.
  - injection H as <-. reflexivity.
Qed.

(** the [while let Some(item)] loop: the copies for the indices idx, idx+1, ... up to the first index
    without a further match *)
Lemma subst_items_from_spec : forall fuel t s idx ds, subst_items_from fuel t s idx = Ok ds ->
  (forall k, k < length ds -> tinst s (pick_further (idx + k)) t = Some (nth k ds (DNil None))) /\
  tinst s (pick_further (idx + length ds)) t = None.
Proof.
  induction fuel as [|f IH]; intros t s idx ds H; cbn [subst_items_from] in H; [discriminate|].
  apply bind_Ok_inv in H. destruct H as [o [E H]]. apply subst_item_spec in E.
  destruct o as [d|].
  - apply bind_Ok_inv in H. destruct H as [r [Er H]]. injection H as <-.
    destruct (IH _ _ _ _ Er) as [A B]. split.
    + intros k Hk. destruct k as [|k]; [rewrite Nat.add_0_r; now rewrite <- E|].
      cbn in Hk. cbn [nth]. replace (idx + S k) with (S idx + k) by lia. apply A. lia.
    + cbn [length]. replace (idx + S (length r)) with (S idx + length r) by lia. exact B.
  - injection H as <-. split; [intros k Hk; cbn in Hk; lia|]. cbn. rewrite Nat.add_0_r. now rewrite <- E.
Qed.

(** ** SyntaxTemplate::substitude on a template without inner ellipses *)
Lemma substitute_flat : forall fuel t s ds, flatt t -> substitute fuel t s = Ok ds ->
  exists d, ds = [d] /\ tinst s pick_first t = Some d.
Proof.
  induction fuel as [|f IH]; intros t s ds Hf H; cbn [substitute] in H; [discriminate|].
  assert (G : forall els items, Forall (fun e => snd e = false /\ flatt (fst e)) els ->
             (fix go (els : list (template * bool)) : res (list datum) :=
                match els with
                | [] => Ok []
                | (t', ell) :: r =>
                    do first <- substitute f t' s ;;
                    do more <- (if ell then subst_items_from f t' s 0 else Ok []) ;;
                    do rest <- go r ;;
                    Ok (first ++ more ++ rest)
                end) els = Ok items -> tinst_items s pick_first els = Some items).
  { induction els as [|[t' b] r0 IHr]; intros items HF E.
    - injection E as <-. reflexivity.
    - inversion HF as [|? ? [Hb Ht] Hr]; subst. cbn in Hb, Ht. subst b.
      apply bind_Ok_inv in E. destruct E as [first [E1 E]]. destruct (IH _ _ _ Ht E1) as [d [-> Hd]].
      apply bind_Ok_inv in E. destruct E as [more [E2 E]]. injection E2 as <-.
      apply bind_Ok_inv in E. destruct E as [rest [E3 E]]. injection E as <-.
      cbn [tinst_items]. rewrite Hd. now rewrite (IHr _ Hr E3). }
  inversion Hf as [x l|p l|els l HF|els l HF]; subst.
  - cbn. destruct (subst_get s x) as [[d v]|]; injection H as <-; eauto.
  - injection H as <-. eauto.
  - apply bind_Ok_inv in H. destruct H as [items [E H]]. injection H as <-. apply (G _ _ HF) in E.
    exists (dlist items). split; [reflexivity|]. rewrite tinst_list, E. reflexivity.
  - apply bind_Ok_inv in H. destruct H as [items [E H]]. injection H as <-. apply (G _ _ HF) in E.
    exists (DVec items None). split; [reflexivity|]. rewrite tinst_vec, E. reflexivity.
Qed.

(** a list template whose elements are flat, the last one followed by an ellipsis: the elements once
    each, then the further copies of the last one *)
Lemma substitute_final_ellipsis : forall fuel pre t l s ds,
  Forall (fun e => snd e = false /\ flatt (fst e)) pre -> flatt t ->
  substitute fuel (TList (pre ++ [(t, true)]) l) s = Ok ds ->
  exists items first more,
    ds = [dlist (items ++ first :: more)] /\
    tinst_items s pick_first pre = Some items /\
    tinst s pick_first t = Some first /\
    (forall k, k < length more -> tinst s (pick_further k) t = Some (nth k more (DNil None))) /\
    tinst s (pick_further (length more)) t = None.
Proof.
  intros fuel pre t l s ds Hpre Ht H. destruct fuel as [|f]; [discriminate|]. cbn [substitute] in H.
  apply bind_Ok_inv in H. destruct H as [all [E H]]. injection H as <-.
  revert all E. induction pre as [|[t' b] r IHr]; intros all E.
  - cbn [app] in E. apply bind_Ok_inv in E. destruct E as [first [E1 E]].
    destruct (substitute_flat _ _ _ _ Ht E1) as [d [-> Hd]].
    apply bind_Ok_inv in E. destruct E as [more [E2 E]]. apply bind_Ok_inv in E. destruct E as [rest [E3 E]].
    injection E3 as <-. injection E as <-. destruct (subst_items_from_spec _ _ _ _ _ E2) as [A B].
    exists [], d, more. rewrite app_nil_r. repeat split; auto.
  - inversion Hpre as [|? ? [Hb Ht'] Hr]; subst. cbn in Hb, Ht'. subst b. cbn [app] in E.
    apply bind_Ok_inv in E. destruct E as [first [E1 E]]. destruct (substitute_flat _ _ _ _ Ht' E1) as [d [-> Hd]].
    apply bind_Ok_inv in E. destruct E as [more0 [E2 E]]. injection E2 as <-.
    apply bind_Ok_inv in E. destruct E as [rest [E3 E]]. injection E as <-.
    destruct (IHr Hr _ E3) as [items [first [more [Eq [Hi [Hfst [A B]]]]]]].
    injection Eq as Eq.
    exists (d :: items), first, more. split; [cbn; now rewrite Eq|]. split; [cbn [tinst_items]; now rewrite Hd, Hi|].
    repeat split; auto.
Qed.
