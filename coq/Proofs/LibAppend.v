(** C11: append of base.sld (see Proofs/LibBase.v) *)
From Coq Require Import ZArith NArith List Bool Lia PeanoNat.
From RV Require Import Model.Common Model.Real32 Model.Num Model.Datum Model.Lexer Model.Reader Model.Macro
  Model.Ast Model.Transform Model.Value Model.Equal Model.Print Model.Builtins Model.Eval Model.Interp
  Spec.EvalSpec Spec.ListSpec Gen.GrammarSld Gen.BaseSld Proofs.Basics Proofs.StoreProofs Proofs.EvalProofs Proofs.FuelProofs
  Proofs.DerivedProofs Proofs.ListProofs Proofs.LibBase.
Import ListNotations.
Local Open Scope Z_scope.

(** append: any number of lists; the last argument is shared as the tail, whatever it is *)
Definition n_append := [97;112;112;101;110;100].
(* the parameter names as they are in base.sld now (so that a renaming re-proves) *)
Definition p_append_r : str := Eval vm_compute in rst n_append.


Lemma is_nil_snoc : forall (l : list value) t, is_nil (vlist (l ++ [t])) = false.
Proof. destruct l; reflexivity. Qed.
Lemma is_list_snoc : forall (l : list value) t, is_list_value (vlist (l ++ [t])) = true.
Proof. destruct l; reflexivity. Qed.

Lemma append_closure : forall c, code_of n_append = Some c ->
  forall ls t st lf, has_library st lf ->
  exists st', app st (closure c lf) (map vlist ls ++ [t]) (Ok (vapp_tail (concat ls) t)) st' /\ keeps st st'.
Proof.
  intros c Hc. vm_compute in Hc. injection Hc as <-.
  induction ls as [|l1 ls IHls]; intros t st lf HL.
  - (* one argument: returned as it is *)
    open_lib HL. cbn [map List.app concat vapp_tail].
    start_proc st lf [(p_append_r, VPair t VNil)].
    pose proof (null_spec (VPair t VNil)) as Hn1. call_lib Hn1 (enter st lf [(p_append_r, VPair t VNil)]) lf.
    match goal with K : keeps _ ?s2 |- _ =>
      pose proof (null_spec VNil) as Hn2; call_lib Hn2 s2 lf end.
    eexists. split.
    + enter_tac.
      eapply evbody_last. eapply ev_if_false; [ev_simple|reflexivity|].
      eapply ev_if_true; [ev_simple|reflexivity|].
      thunk_tac. ev_simple.
    + keeps_tac.
  - (* a first list and more arguments *)
    revert st lf HL. induction l1 as [|x l1 IHl1]; intros st lf HL; open_lib HL.
    + (* the first list is empty: append of the rest *)
      cbn [map List.app concat vlist].
      set (R := vlist (map vlist ls ++ [t])).
      assert (NR : is_nil R = false) by apply is_nil_snoc.
      assert (LR : is_list_value R = true) by apply is_list_snoc.
      start_proc st lf [(p_append_r, VPair VNil R)].
      pose proof (null_spec (VPair VNil R)) as Hn1. call_lib Hn1 (enter st lf [(p_append_r, VPair VNil R)]) lf.
      match goal with K : keeps _ ?s2 |- _ =>
        pose proof (null_spec R) as Hn2; call_lib Hn2 s2 lf end.
      match goal with K : keeps _ ?s3, Hn : app _ _ [R] _ ?s3 |- _ =>
        rewrite NR in Hn;
        pose proof (null_spec VNil) as Hn3; call_lib Hn3 s3 lf end.
      match goal with K : keeps _ ?s4, Hn : app _ _ [VNil] _ ?s4 |- _ =>
        start_proc s4 (length (frames st)) (@nil (str * value));
        assert (HL5 : has_library (enter s4 (length (frames st)) []) lf)
          by (eapply has_library_keeps; [exact HL | keeps_tac]);
        destruct (IHls t _ lf HL5) as [st6 [Hrec K6]]
      end.
      eexists. split.
      * enter_tac.
        eapply evbody_last. eapply ev_if_false; [ev_simple|reflexivity|].
        eapply ev_if_false; [ev_simple|reflexivity|].
        eapply ev_if_true; [ev_simple|reflexivity|].
        thunk_tac.
        eapply ev_call; [ev_simple|evs_simple|reflexivity|].
        eapply (app_apply _ _ [] R); [reflexivity|exact LR|].
        unfold R. rewrite vitems_vlist. exact Hrec.
      * keeps_tac.
    + (* the first list is x :: l1: x consed onto the append of l1 and the rest *)
      cbn [map List.app concat vlist vapp_tail].
      set (R := vlist (map vlist ls ++ [t])).
      assert (NR : is_nil R = false) by apply is_nil_snoc.
      assert (LR : is_list_value R = true) by apply is_list_snoc.
      start_proc st lf [(p_append_r, VPair (VPair x (vlist l1)) R)].
      pose proof (null_spec (VPair (VPair x (vlist l1)) R)) as Hn1.
      call_lib Hn1 (enter st lf [(p_append_r, VPair (VPair x (vlist l1)) R)]) lf.
      match goal with K : keeps _ ?s2 |- _ =>
        pose proof (null_spec R) as Hn2; call_lib Hn2 s2 lf end.
      match goal with K : keeps _ ?s3, Hn : app _ _ [R] _ ?s3 |- _ =>
        rewrite NR in Hn;
        pose proof (null_spec (VPair x (vlist l1))) as Hn3; call_lib Hn3 s3 lf end.
      match goal with K : keeps _ ?s4, Hn : app _ _ [VPair x (vlist l1)] _ ?s4 |- _ =>
        start_proc s4 (length (frames st)) (@nil (str * value));
        pose proof (caar_spec x (vlist l1) R) as Hcaar;
        call_lib Hcaar (enter s4 (length (frames st)) []) lf
      end.
      match goal with K : keeps _ ?s6, Hn : app _ _ _ (Ok x) ?s6 |- _ =>
        pose proof (cdar_spec x (vlist l1) R) as Hcdar; call_lib Hcdar s6 lf end.
      match goal with K : keeps _ ?s7, Hn : app _ _ _ (Ok (vlist l1)) ?s7 |- _ =>
        assert (HL7 : has_library s7 lf) by (eapply has_library_keeps; [exact HL | keeps_tac]);
        destruct (IHl1 s7 lf HL7) as [st8 [Hrec K8]]
      end.
      eexists. split.
      * enter_tac.
        eapply evbody_last. eapply ev_if_false; [ev_simple|reflexivity|].
        eapply ev_if_false; [ev_simple|reflexivity|].
        eapply ev_if_false; [ev_simple|reflexivity|].
        thunk_tac.
        eapply ev_call; [ev_simple| |reflexivity|].
        -- eapply evs_cons; [ev_simple|]. eapply evs_cons; [|apply evs_nil].
           eapply ev_call; [ev_simple|evs_simple|reflexivity|].
           eapply (app_apply _ _ [vlist l1] R); [reflexivity|exact LR|].
           unfold R. rewrite vitems_vlist. exact Hrec.
        -- app_native.
      * keeps_tac.
Qed.

Theorem append_spec : forall ls t, lib_call n_append (map vlist ls ++ [t]) (vapp_tail (concat ls) t).
Proof.
  intros ls t. eapply lib_call_intro; [vm_compute; reflexivity|].
  intros st lf HL. now apply append_closure.
Qed.

(** no argument: the empty list *)
Theorem append_none : lib_call n_append [] VNil.
Proof.
  eapply lib_call_intro; [vm_compute; reflexivity|].
  intros st lf HL. open_lib HL.
  start_proc st lf [(p_append_r, VNil)].
  pose proof (null_spec VNil) as Hn1. call_lib Hn1 (enter st lf [(p_append_r, VNil)]) lf.
  eexists. split.
  - enter_tac. eapply evbody_last. eapply ev_if_true; [ev_simple|reflexivity|]. thunk_tac. ev_simple.
  - keeps_tac.
Qed.
