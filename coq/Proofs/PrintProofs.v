(** C16: printing exact integers and reading them back (Model/Print.v, Model/Lexer.v). *)
From Coq Require Import ZArith NArith List Bool Lia.
From RV Require Import Model.Common Model.Real32 Model.Num Model.Datum Model.Lexer Model.Value Model.Print Proofs.Basics.
Import ListNotations.
Local Open Scope Z_scope.

Lemma digit_char_value : forall d, 0 <= d < 10 -> Z.of_N (digit_char d - c_0) = d.
Proof.
  intros d H. unfold digit_char, c_0.
  assert (d = 0 \/ d = 1 \/ d = 2 \/ d = 3 \/ d = 4 \/ d = 5 \/ d = 6 \/ d = 7 \/ d = 8 \/ d = 9) by lia.
  intuition (subst; reflexivity).
Qed.

Lemma digit_char_is_digit : forall d, 0 <= d < 10 -> is_digit (digit_char d) = true.
Proof.
  intros d H. unfold digit_char.
  assert (d = 0 \/ d = 1 \/ d = 2 \/ d = 3 \/ d = 4 \/ d = 5 \/ d = 6 \/ d = 7 \/ d = 8 \/ d = 9) by lia.
  intuition (subst; reflexivity).
Qed.

(** the value of a digit string read with an accumulator *)
Lemma digits_value_acc : forall ds k, digits_value ds k = k * 10 ^ Z.of_nat (length ds) + digits_value ds 0.
Proof.
  induction ds as [|d ds IH]; intros k; cbn [digits_value length].
  - change (Z.of_nat 0) with 0. rewrite Z.pow_0_r. lia.
  - rewrite IH. rewrite (IH (0 * 10 + Z.of_N (d - c_0))).
    rewrite Nat2Z.inj_succ, Z.pow_succ_r by lia. ring.
Qed.

Lemma digits_fuel_S : forall f z acc, digits_fuel (S f) z acc =
  if z <? 10 then digit_char z :: acc else digits_fuel f (z / 10) (digit_char (z mod 10) :: acc).
Proof. reflexivity. Qed.

Lemma digits_fuel_value : forall fuel z acc, 0 <= z < 10 ^ Z.of_nat (S fuel) ->
  digits_value (digits_fuel (S fuel) z acc) 0 = z * 10 ^ Z.of_nat (length acc) + digits_value acc 0 /\
  (forallb is_digit acc = true -> forallb is_digit (digits_fuel (S fuel) z acc) = true) /\
  digits_fuel (S fuel) z acc <> [].
Proof.
  induction fuel as [|f IH]; intros z acc H; rewrite digits_fuel_S; destruct (z <? 10) eqn:E.
  - apply Z.ltb_lt in E. repeat split.
    + cbn [digits_value]. rewrite digits_value_acc. rewrite digit_char_value by lia. lia.
    + intro Ha. cbn [forallb]. rewrite digit_char_is_digit by lia. exact Ha.
    + discriminate.
  - apply Z.ltb_ge in E. change (10 ^ Z.of_nat 1) with 10 in H. lia.
  - apply Z.ltb_lt in E. repeat split.
    + cbn [digits_value]. rewrite digits_value_acc. rewrite digit_char_value by lia. lia.
    + intro Ha. cbn [forallb]. rewrite digit_char_is_digit by lia. exact Ha.
    + discriminate.
  - apply Z.ltb_ge in E.
    assert (Hq : 0 <= z / 10 < 10 ^ Z.of_nat (S f)).
    { rewrite (Nat2Z.inj_succ (S f)), Z.pow_succ_r in H by lia. split; [apply Z.div_pos; lia|].
      apply Z.div_lt_upper_bound; lia. }
    destruct (IH (z / 10) (digit_char (z mod 10) :: acc) Hq) as [V [D NE]].
    assert (Hm : 0 <= z mod 10 < 10) by (apply Z.mod_pos_bound; lia).
    repeat split.
    + rewrite V. cbn [length digits_value]. rewrite digits_value_acc. rewrite digit_char_value by lia.
      rewrite Nat2Z.inj_succ, Z.pow_succ_r by lia.
      rewrite (Z.div_mod z 10) at 3 by lia. ring.
    + intro Ha. apply D. cbn [forallb]. rewrite digit_char_is_digit by lia. exact Ha.
    + exact NE.
Qed.

Lemma pow10_gt : forall z, 0 <= z -> z < 10 ^ Z.of_nat (S (Z.to_nat (Z.log2 z))).
Proof.
  intros z H. destruct (Z.eq_dec z 0) as [->|Hz]; [reflexivity|].
  assert (Hp : 0 < z) by lia.
  pose proof (Z.log2_spec z Hp) as [_ Hu].
  rewrite Nat2Z.inj_succ, Z2Nat.id by apply Z.log2_nonneg.
  eapply Z.lt_le_trans; [exact Hu|]. apply Z.pow_le_mono_l. lia.
Qed.

(** reading the digits of a non-negative integer gives the integer back *)
Theorem digits_roundtrip : forall z, 0 <= z ->
  digits_value (digits_of z) 0 = z /\ forallb is_digit (digits_of z) = true /\ digits_of z <> [].
Proof.
  intros z H. unfold digits_of.
  destruct (digits_fuel_value (Z.to_nat (Z.log2 z)) z [] (conj H (pow10_gt z H))) as [V [D NE]].
  repeat split; [|now apply D|exact NE]. rewrite V. cbn. lia.
Qed.

Lemma digits_first_is_digit : forall z, 0 <= z ->
  match digits_of z with c :: _ => is_digit c = true | [] => False end.
Proof.
  intros z H. destruct (digits_roundtrip z H) as [_ [D NE]].
  destruct (digits_of z) as [|c r]; [congruence|]. cbn in D. now apply andb_true_iff in D as [D _].
Qed.

(** an exact integer in the i32 range prints as text that the lexer's integer conversion reads
    back as the same integer *)
Theorem int_roundtrip : forall z, -2147483648 <= z <= 2147483647 -> parse_i32 (print_Z z) = Some z.
Proof.
  intros z H. unfold print_Z. destruct (z <? 0) eqn:E.
  - apply Z.ltb_lt in E. destruct (digits_roundtrip (- z) ltac:(lia)) as [V [D NE]].
    unfold parse_i32. change (45%N =? c_minus)%N with true. cbv iota.
    destruct (digits_of (- z)) as [|c r] eqn:ED; [congruence|]. rewrite D, V.
    replace (- - z) with z by lia.
    destruct ((-2147483648 <=? z) && (z <=? 2147483647)) eqn:ER; [reflexivity|].
    apply andb_false_iff in ER as [ER|ER]; [apply Z.leb_gt in ER|apply Z.leb_gt in ER]; lia.
  - apply Z.ltb_ge in E. destruct (digits_roundtrip z E) as [V [D NE]].
    pose proof (digits_first_is_digit z E) as F.
    unfold parse_i32. destruct (digits_of z) as [|c r] eqn:ED; [congruence|].
    assert (Hm : (c =? c_minus)%N = false).
    { unfold is_digit, c_0, c_9, c_minus in *. apply andb_true_iff in F as [F1 F2].
      apply N.leb_le in F1. apply N.eqb_neq. lia. }
    assert (Hp : (c =? c_plus)%N = false).
    { unfold is_digit, c_0, c_9, c_plus in *. apply andb_true_iff in F as [F1 F2].
      apply N.leb_le in F1. apply N.eqb_neq. lia. }
    rewrite Hm, Hp. rewrite D, V.
    destruct ((-2147483648 <=? z) && (z <=? 2147483647)) eqn:ER; [reflexivity|].
    apply andb_false_iff in ER as [ER|ER]; [apply Z.leb_gt in ER|apply Z.leb_gt in ER]; lia.
Qed.

(** hence distinct integers print differently *)
Corollary print_Z_injective : forall a b, -2147483648 <= a <= 2147483647 -> -2147483648 <= b <= 2147483647 ->
  print_Z a = print_Z b -> a = b.
Proof.
  intros a b Ha Hb H. pose proof (int_roundtrip a Ha) as Ra. rewrite H, (int_roundtrip b Hb) in Ra. congruence.
Qed.

(** a ratio prints as numerator, slash, denominator, each of which reads back *)
Theorem ratio_prints_as_parts : forall n d, print_number (NRat n d) = print_Z n ++ [47%N] ++ print_Z d.
Proof. reflexivity. Qed.

(** booleans and characters print as the tokens that denote them *)
Theorem bool_roundtrip : forall b rest p,
  exists p', lex_next 3 (match display 1 empty_state (VBool b) with Some t => t | None => [] end ++ rest) p
             = Ok (Some (TPrim (PBool b), p'), rest, p').
Proof. intros [|] rest p; eexists; reflexivity. Qed.

Theorem char_roundtrip : forall c rest p,
  exists p', lex_next 3 (match display 1 empty_state (VChar c) with Some t => t | None => [] end ++ rest) p
             = Ok (Some (TPrim (PChar c), p'), rest, p').
Proof. intros c rest p. eexists. reflexivity. Qed.

(** lists print with single spaces, a dotted tail only when improper *)
Theorem display_pair_shape : forall f st a b sa sb,
  display f st a = Some sa -> display f st b = Some sb ->
  display (S f) st (VPair a (VPair b VNil)) = Some ([40%N] ++ sa ++ [32%N] ++ sb ++ [41%N]) /\
  (match b with VNil | VPair _ _ => False | _ => True end ->
   display (S f) st (VPair a b) = Some ([40%N] ++ sa ++ [32%N; 46%N; 32%N] ++ sb ++ [41%N])) /\
  display (S f) st (VPair a VNil) = Some ([40%N] ++ sa ++ [41%N]).
Proof.
  intros f st a b sa sb Ha Hb. repeat split.
  - cbn [display]. rewrite Ha, Hb. unfold sp, str_of_ascii. cbn [map Z.to_N app]. rewrite <- ?app_assoc. reflexivity.
  - intro Hnb. cbn [display]. rewrite Ha.
    destruct b; try contradiction; rewrite Hb; unfold sp, str_of_ascii; cbn [map app]; rewrite <- ?app_assoc; reflexivity.
  - cbn [display]. rewrite Ha. reflexivity.
Qed.
