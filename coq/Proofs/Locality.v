(** C19 / C13: the read half of isolation. Evaluation started inside a region (Proofs/RegionProofs.v) not only
    writes nothing outside it, it also READS nothing outside it: a second state of the same size that agrees
    with the first on a set of frames and vectors that covers the region and everything allocated later -
    whatever else it holds, for instance the frames of another interpreter instance or what an importer
    defined - gives the same result (the same value or the same error), and the two states reached agree
    again on that set. *)
From Coq Require Import ZArith NArith List Bool Lia PeanoNat.
From RV Require Import Model.Common Model.Real32 Model.Num Model.Datum Model.Macro Model.Ast
  Model.Value Model.Print Model.Builtins Model.Eval Spec.EvalSpec Proofs.Basics Proofs.StoreProofs Proofs.EvalProofs
  Proofs.RegionProofs Proofs.RoundTrip Proofs.FuelProofs Proofs.FailProofs.
Import ListNotations.

(** same size, same frames on [C], same vectors on [D] *)
Definition agree (C D : nset) (st w : state) : Prop :=
  length (frames w) = length (frames st) /\ length (vectors w) = length (vectors st) /\
  (forall a, C a -> nth_error (frames w) a = nth_error (frames st) a) /\
  (forall x, D x -> nth_error (vectors w) x = nth_error (vectors st) x).

(** [C], [D] contain every address not yet allocated *)
Definition cover (C D : nset) (st : state) : Prop :=
  (forall a, length (frames st) <= a -> C a) /\ (forall x, length (vectors st) <= x -> D x).

Definition inreg (F V C D : nset) : Prop := incl_set F C /\ incl_set V D.

Lemma advance : forall F V C D st F1 V1 st1, step_ok F V st F1 V1 st1 -> inreg F V C D -> cover C D st ->
  stok F1 V1 st1 /\ inreg F1 V1 C D /\ cover C D st1 /\ incl_set F F1 /\ incl_set V V1.
Proof.
  intros F V C D st F1 V1 st1 [A1 [A2 [A3 [A4 [A5 [_ [G1 G2]]]]]]] [I1 I2] [C1 C2].
  split; [exact A5|]. split; [|split; [|split; assumption]].
  - split; intros a Ha.
    + destruct (A2 a Ha) as [H|H]; [now apply I1|now apply C1].
    + destruct (A4 a Ha) as [H|H]; [now apply I2|now apply C2].
  - split; intros a Ha; [apply C1|apply C2]; lia.
Qed.

Lemma agree_same_store : forall C D st w st' w', agree C D st w ->
  frames st' = frames st -> vectors st' = vectors st -> frames w' = frames w -> vectors w' = vectors w ->
  agree C D st' w'.
Proof. intros C D st w st' w' H E1 E2 E3 E4. unfold agree in *. rewrite E1, E2, E3, E4. exact H. Qed.

(** ** reading *)
Definition agF {C D st w} (H : agree C D st w) := proj1 (proj2 (proj2 H)).
Definition agV {C D st w} (H : agree C D st w) := proj2 (proj2 (proj2 H)).

Lemma env_get_fuel_agree : forall F V C D st w n a x, stok F V st -> incl_set F C -> agree C D st w -> F a ->
  env_get_fuel n (frames w) a x = env_get_fuel n (frames st) a x.
Proof.
  intros F V C D st w n. induction n as [|n IH]; intros a x Hst Hin Hag Ha; [reflexivity|]. cbn [env_get_fuel].
  rewrite (agF Hag a (Hin a Ha)). destruct (proj1 Hst a Ha) as [fr [Efr [Hp _]]]. rewrite Efr.
  destruct (alist_get (f_defs fr) x); [reflexivity|]. destruct (f_parent fr) as [p|] eqn:EP; [|reflexivity].
  apply IH; [exact Hst|exact Hin|exact Hag|now apply Hp].
Qed.

Lemma env_get_agree : forall F V C D st w a x, stok F V st -> incl_set F C -> agree C D st w -> F a ->
  env_get w a x = env_get st a x.
Proof. intros F V C D st w a x Hst Hin Hag Ha. unfold env_get. rewrite (proj1 Hag). now apply (env_get_fuel_agree F V C D). Qed.

Lemma defining_frame_fuel_agree : forall F V C D st w n a x, stok F V st -> incl_set F C -> agree C D st w -> F a ->
  defining_frame_fuel n (frames w) a x = defining_frame_fuel n (frames st) a x.
Proof.
  intros F V C D st w n. induction n as [|n IH]; intros a x Hst Hin Hag Ha; [reflexivity|]. cbn [defining_frame_fuel].
  rewrite (agF Hag a (Hin a Ha)). destruct (proj1 Hst a Ha) as [fr [Efr [Hp _]]]. rewrite Efr.
  destruct (alist_get (f_defs fr) x); [reflexivity|]. destruct (f_parent fr) as [p|] eqn:EP; [|reflexivity].
  apply IH; [exact Hst|exact Hin|exact Hag|now apply Hp].
Qed.

(** ** writing *)
Lemma env_define_agree : forall C D st w a x v, agree C D st w -> C a ->
  agree C D (env_define st a x v) (env_define w a x v).
Proof.
  intros C D st w a x v Hag Ha. unfold env_define. rewrite (agF Hag a Ha).
  destruct (nth_error (frames st) a) as [fr|] eqn:E; [|exact Hag].
  destruct Hag as [A [B [P Q]]]. repeat split; cbn.
  - now rewrite !list_update_length.
  - exact B.
  - intros b Hb. destruct (Nat.eq_dec a b) as [<-|N].
    + rewrite !nth_error_update_same; [reflexivity| |]; apply nth_error_Some; [congruence|rewrite (P a Ha); congruence].
    + rewrite !nth_error_update_other by assumption. now apply P.
  - exact Q.
Qed.

Lemma env_set_agree : forall F V C D st w a x v, stok F V st -> incl_set F C -> agree C D st w -> F a ->
  match env_set st a x v with
  | Some st' => exists w', env_set w a x v = Some w' /\ agree C D st' w'
  | None => env_set w a x v = None
  end.
Proof.
  intros F V C D st w a x v Hst Hin Hag Ha. unfold env_set, defining_frame. rewrite (proj1 Hag).
  rewrite (defining_frame_fuel_agree F V C D st w _ a x Hst Hin Hag Ha).
  destruct (defining_frame_fuel (S (length (frames st))) (frames st) a x) as [d|] eqn:E; [|reflexivity].
  eexists. split; [reflexivity|]. apply env_define_agree; [exact Hag|]. apply Hin.
  eapply defining_frame_fuel_ok; eassumption.
Qed.

Lemma nth_error_snoc_agree : forall {A} (l l2 : list A) x a, length l2 = length l ->
  (a < length l -> nth_error l2 a = nth_error l a) -> nth_error (l2 ++ [x]) a = nth_error (l ++ [x]) a.
Proof.
  intros A l l2 x a L H. destruct (Nat.lt_ge_cases a (length l)) as [Lt|Ge].
  - rewrite !nth_error_app1 by lia. now apply H.
  - rewrite !nth_error_app2 by lia. now rewrite L.
Qed.

Lemma alloc_frame_agree : forall C D st w p, agree C D st w ->
  fst (alloc_frame w p) = fst (alloc_frame st p) /\ agree C D (snd (alloc_frame st p)) (snd (alloc_frame w p)).
Proof.
  intros C D st w p [A [B [P Q]]]. cbn. split; [exact A|]. repeat split; cbn.
  - rewrite !app_length. cbn. lia.
  - exact B.
  - intros a Ha. apply nth_error_snoc_agree; [exact A|]. intros _. now apply P.
  - exact Q.
Qed.

Lemma alloc_vector_agree : forall C D st w cells, agree C D st w ->
  fst (alloc_vector w cells) = fst (alloc_vector st cells) /\
  agree C D (snd (alloc_vector st cells)) (snd (alloc_vector w cells)).
Proof.
  intros C D st w cells [A [B [P Q]]]. cbn. split; [exact B|]. repeat split; cbn.
  - exact A.
  - rewrite !app_length. cbn. lia.
  - exact P.
  - intros a Ha. apply nth_error_snoc_agree; [exact B|]. intros _. now apply Q.
Qed.

Lemma bind_fixed_agree : forall names C D st w env args, agree C D st w -> C env ->
  match bind_fixed st env names args with
  | Ok (rest, st') => exists w', bind_fixed w env names args = Ok (rest, w') /\ agree C D st' w'
  | other => bind_fixed w env names args = other
  end.
Proof.
  induction names as [|x xs IH]; intros C D st w env args Hag He; cbn.
  - eauto.
  - destruct args as [|v vs]; [reflexivity|]. apply IH; [now apply env_define_agree|exact He].
Qed.

(** ** literals: only the number of vectors is read *)
Definition lit_agree (d : datum) : Prop := forall C D st w r st', agree C D st w -> read_literal d st = (r, st') ->
  exists w', read_literal d w = (r, w') /\ agree C D st' w'.

Lemma read_literal_agree : forall d, lit_agree d.
Proof.
  induction d as [p l|s l|l|a b l IHa IHb|v l IHv] using datum_rect'; intros C D st w r st' Hag H; cbn in H |- *.
  - injection H as <- <-. eauto.
  - injection H as <- <-. eauto.
  - injection H as <- <-. eauto.
  - destruct (read_literal a st) as [ra st1] eqn:Ea. destruct (IHa _ _ _ _ _ _ Hag Ea) as [w1 [E1 A1]]. rewrite E1.
    destruct ra as [va|k ll|s|]; cbn in H |- *; try (injection H as <- <-; eauto).
    destruct (read_literal b st1) as [rb st2] eqn:Eb. destruct (IHb _ _ _ _ _ _ A1 Eb) as [w2 [E2 A2]]. rewrite E2.
    destruct rb as [vb|k ll|s|]; cbn in H |- *; injection H as <- <-; eauto.
  - match type of H with
    | ebind (?elems v st) _ = _ =>
        assert (G : forall v, Forall lit_agree v ->
                   forall C D st w r st', agree C D st w -> elems v st = (r, st') ->
                   exists w', elems v w = (r, w') /\ agree C D st' w')
    end.
    { clear. induction v as [|x xs IH]; intros HF C D st w r st' Hag H.
      - injection H as <- <-. eauto.
      - inversion HF as [|? ? Hx Hxs]; subst. simpl in H |- *.
        destruct (read_literal x st) as [rx st1] eqn:Ex. destruct (Hx _ _ _ _ _ _ Hag Ex) as [w1 [E1 A1]]. rewrite E1.
        destruct rx as [vx|k ll|s|]; cbn in H |- *; try (injection H as <- <-; eauto).
        match type of H with ebind (?e xs st1) _ = _ => destruct (e xs st1) as [rr st2] eqn:Er end.
        destruct (IH Hxs _ _ _ _ _ _ A1 Er) as [w2 [E2 A2]]. rewrite E2.
        destruct rr as [vr|k ll|s|]; cbn in H |- *; injection H as <- <-; eauto. }
    match type of H with ebind (?elems v st) _ = _ => destruct (elems v st) as [rc st1] eqn:Ec end.
    destruct (G v IHv _ _ _ _ _ _ Hag Ec) as [w1 [E1 A1]]. rewrite E1.
    destruct rc as [cells|k ll|s|]; cbn in H |- *; [|injection H as <- <-; eauto ..].
    destruct (alloc_vector_agree C D st1 w1 cells A1) as [Ef As]. unfold alloc_vector in *. cbn [fst snd] in *.
    injection H as <- <-. rewrite Ef. eauto.
Qed.

(** ** display reads the vectors reachable from the value *)
Definition disp_elems (f : nat) (st : state) : list value -> option (list str) :=
  fix elems (l : list value) : option (list str) :=
    match l with
    | [] => Some []
    | x :: r => match display f st x, elems r with
                | Some sx, Some sr => Some (sx :: sr)
                | _, _ => None
                end
    end.

Lemma display_vec : forall f st m a,
  display (S f) st (VVec m a) =
  match nth_error (vectors st) a with
  | None => None
  | Some cells => match disp_elems f st cells with
                  | Some ss => Some (str_of_ascii [35; 40]%Z ++ join_sp ss ++ [41%N])
                  | None => None
                  end
  end.
Proof. reflexivity. Qed.

Lemma display_agree : forall F V C D st w, stok F V st -> incl_set V D -> agree C D st w ->
  forall fuel v, vok F V v -> display fuel w v = display fuel st v.
Proof.
  intros F V C D st w Hst Hin Hag. induction fuel as [|f IH]; intros v Hv; [reflexivity|].
  destruct v as [n|b0|c|s|s|fm ds bd env|name|m a|a b| |t| ]; try reflexivity.
  - rewrite !display_vec. cbn in Hv. rewrite (agV Hag a (Hin a Hv)).
    destruct (proj2 Hst a Hv) as [cells [E Hc]]. rewrite E.
    assert (G : disp_elems f w cells = disp_elems f st cells).
    { clear E. induction cells as [|x r IHr]; [reflexivity|]. inversion Hc as [|? ? Hx Hr]; subst.
      cbn [disp_elems]. rewrite (IH x Hx). fold (disp_elems f w r). fold (disp_elems f st r). now rewrite (IHr Hr). }
    now rewrite G.
  - rewrite !display_pair. destruct Hv as [Ha Hb]. rewrite (IH a Ha).
    assert (G : forall b, vok F V b -> disp_tail f w b = disp_tail f st b).
    { clear - IH. induction b as [n|b0|c|s|s|fm ds bd env|name|m x|x IHx y IHy| |t| ]; intros Hb;
        try (cbn [disp_tail]; now rewrite (IH _ Hb)); try reflexivity.
      destruct Hb as [Hx Hy]. cbn [disp_tail]. rewrite (IH x Hx).
      fold (disp_tail f w y). fold (disp_tail f st y). now rewrite (IHy Hy). }
    now rewrite (G b Hb).
Qed.

(** ** the native procedures: only the vector procedures and display look at the store *)
Lemma builtin_call_agree : forall name args F V C D st w r st', stok F V st -> Forall (vok F V) args ->
  incl_set V D -> agree C D st w -> builtin_call name args st = (r, st') ->
  exists w', builtin_call name args w = (r, w') /\ agree C D st' w'.
Proof.
  intros name args F V C D st w r st' Hst Ha Hin Hag. unfold builtin_call. cbv zeta.
  repeat match goal with
  | |- (if ?b then _ else _) = _ -> _ => destruct b
  end.
  all: try (intros H; injection H as <- <-; eexists; split; [reflexivity|exact Hag]).
  - (* display *)
    destruct args as [|v vs]; cbn [arg1]; [intros H; injection H as <- <-; eauto|].
    inversion Ha as [|? ? Hv _]; subst. rewrite (display_agree F V C D st w Hst Hin Hag display_fuel v Hv).
    destruct (display display_fuel st v); intros H; injection H as <- <-; eexists; (split; [reflexivity|]); [|exact Hag].
    eapply agree_same_store; [exact Hag|reflexivity..].
  - (* vector *)
    destruct (alloc_vector_agree C D st w args Hag) as [Ef As]. unfold alloc_vector in *. cbn [fst snd] in *.
    intros H; injection H as <- <-. rewrite Ef. eauto.
  - (* make-vector *)
    destruct (do p <- arg2 args;; let '(kv, fill) := p in do k <- expect_integer kv;; Ok (k, fill)) as [[k fill]|k l|x|];
      try (intros H; injection H as <- <-; eauto).
    destruct (k <? 0)%Z; [intros H; injection H as <- <-; eauto|].
    destruct (1000000 <? k)%Z; [intros H; injection H as <- <-; eauto|].
    destruct (alloc_vector_agree C D st w (repeat fill (Z.to_nat k)) Hag) as [Ef As]. unfold alloc_vector in *. cbn [fst snd] in *.
    intros H; injection H as <- <-. rewrite Ef. eauto.
  - (* vector-length *)
    intros H; injection H as <- <-. eexists. split; [|exact Hag]. f_equal.
    destruct args as [|v vs]; [reflexivity|]. inversion Ha as [|? ? Hv _]; subst. cbn [arg1 bind].
    destruct v; try reflexivity. cbn in Hv. now rewrite (agV Hag _ (Hin _ Hv)).
  - (* vector-ref *)
    intros H; injection H as <- <-. eexists. split; [|exact Hag]. f_equal.
    destruct args as [|v [|kv vs]]; try reflexivity. inversion Ha as [|? ? Hv _]; subst. cbn [arg2 bind].
    destruct v; try reflexivity. cbn in Hv. now rewrite (agV Hag _ (Hin _ Hv)).
  - (* vector-set! *)
    destruct args as [|v [|kv [|obj vs]]]; cbn [arg3]; try (intros H; injection H as <- <-; eauto).
    inversion Ha as [|? ? Hv _]; subst.
    destruct v; try (intros H; injection H as <- <-; eauto).
    destruct (expect_integer kv) as [k|k l|x|]; try (intros H; injection H as <- <-; eauto).
    destruct (negb mutable); [intros H; injection H as <- <-; eauto|].
    cbn in Hv. rewrite (agV Hag _ (Hin _ Hv)).
    destruct (nth_error (vectors st) addr) as [cells|] eqn:EN; [|intros H; injection H as <- <-; eauto].
    destruct ((k <? 0)%Z || (Z.of_nat (length cells) <=? k)%Z); [intros H; injection H as <- <-; eauto|].
    intros H; injection H as <- <-. eexists. split; [reflexivity|].
    destruct Hag as [A [B [P Q]]]. repeat split; cbn.
    + exact A.
    + now rewrite !list_update_length.
    + exact P.
    + intros b Hb. destruct (Nat.eq_dec addr b) as [<-|N].
      * rewrite !nth_error_update_same; [reflexivity| |]; apply nth_error_Some; [congruence|].
        rewrite (Q addr (Hin _ Hv)). congruence.
      * rewrite !nth_error_update_other by assumption. now apply Q.
  - (* tick *)
    destruct (arg2 args) as [[v1 v2]|k l|x|]; try (intros H; injection H as <- <-; eauto).
    destruct v1 as [n| | | | | | | | | | |]; try (intros H; injection H as <- <-; eauto).
    destruct n; try (intros H; injection H as <- <-; eauto).
Qed.

(** ** evaluation: the same derivation exists from the other state *)
Definition L_ev (st : state) (env : nat) (e : expr) (r : res value) (st' : state) : Prop :=
  forall F V C D w, stok F V st -> F env -> inreg F V C D -> cover C D st -> agree C D st w ->
  exists w', ev w env e r w' /\ agree C D st' w'.
Definition L_evs (st : state) (env : nat) (es : list expr) (r : res (list value)) (st' : state) : Prop :=
  forall F V C D w, stok F V st -> F env -> inreg F V C D -> cover C D st -> agree C D st w ->
  exists w', evs w env es r w' /\ agree C D st' w'.
Definition L_app (st : state) (p : value) (args : list value) (r : res value) (st' : state) : Prop :=
  forall F V C D w, stok F V st -> vok F V p -> Forall (vok F V) args -> inreg F V C D -> cover C D st -> agree C D st w ->
  exists w', app w p args r w' /\ agree C D st' w'.
Definition L_evproc (st : state) (fm : formals) (defs : list (str * expr * loc)) (body : list expr) (closure : nat)
  (args : list value) (r : res value) (st' : state) : Prop :=
  forall F V C D w, stok F V st -> F closure -> Forall (vok F V) args -> inreg F V C D -> cover C D st -> agree C D st w ->
  exists w', evproc w fm defs body closure args r w' /\ agree C D st' w'.
Definition L_evdefs (st : state) (env : nat) (defs : list (str * expr * loc)) (r : res unit) (st' : state) : Prop :=
  forall F V C D w, stok F V st -> F env -> inreg F V C D -> cover C D st -> agree C D st w ->
  exists w', evdefs w env defs r w' /\ agree C D st' w'.
Definition L_evbody (st : state) (env : nat) (body : list expr) (r : res value) (st' : state) : Prop :=
  forall F V C D w, stok F V st -> F env -> inreg F V C D -> cover C D st -> agree C D st w ->
  exists w', evbody w env body r w' /\ agree C D st' w'.

(** one step of a derivation: the region reached ([region_all]), the other state reached (induction hypothesis) *)
Ltac reg_ev H Hst He S R :=
  let F1 := fresh "F1" in let V1 := fresh "V1" in
  destruct (proj1 region_all _ _ _ _ _ H _ _ Hst He) as [F1 [V1 [S R]]].
Ltac reg_evs H Hst He S R :=
  let F1 := fresh "F1" in let V1 := fresh "V1" in
  destruct (proj1 (proj2 region_all) _ _ _ _ _ H _ _ Hst He) as [F1 [V1 [S R]]].
Ltac adv S Hin Hcov :=
  let st1 := fresh "Hst" in let in1 := fresh "Hin" in let cov1 := fresh "Hcov" in
  let iF := fresh "iF" in let iV := fresh "iV" in
  destruct (advance _ _ _ _ _ _ _ _ S Hin Hcov) as [st1 [in1 [cov1 [iF iV]]]].

Theorem local_all :
  (forall st env e r st', ev st env e r st' -> L_ev st env e r st') /\
  (forall st env es r st', evs st env es r st' -> L_evs st env es r st') /\
  (forall st p args r st', app st p args r st' -> L_app st p args r st') /\
  (forall st fm defs body closure args r st',
      evproc st fm defs body closure args r st' -> L_evproc st fm defs body closure args r st') /\
  (forall st env defs r st', evdefs st env defs r st' -> L_evdefs st env defs r st') /\
  (forall st env body r st', evbody st env body r st' -> L_evbody st env body r st').
Proof.
  apply ev_mutind.
  - (* ev_prim *) intros st env p l F V C D w Hst He Hin Hcov Hag. exists w. split; [constructor|exact Hag].
  - (* ev_datum *)
    intros st env d l r st' H F V C D w Hst He Hin Hcov Hag.
    destruct (read_literal_agree d C D st w r st' Hag H) as [w' [E A]]. exists w'. split; [now constructor|exact A].
  - (* ev_quote *)
    intros st env d l r st' H F V C D w Hst He Hin Hcov Hag.
    destruct (read_literal_agree d C D st w r st' Hag H) as [w' [E A]]. exists w'. split; [now constructor|exact A].
  - (* ev_sym *)
    intros st env x l v H F V C D w Hst He Hin Hcov Hag. exists w. split; [|exact Hag]. constructor.
    now rewrite (env_get_agree F V C D st w env x Hst (proj1 Hin) Hag He).
  - (* ev_sym_unbound *)
    intros st env x l H F V C D w Hst He Hin Hcov Hag. exists w. split; [|exact Hag]. constructor.
    now rewrite (env_get_agree F V C D st w env x Hst (proj1 Hin) Hag He).
  - (* ev_lambda *) intros st env fm defs body l F V C D w Hst He Hin Hcov Hag. exists w. split; [constructor|exact Hag].
  - (* ev_set *)
    intros st env x e l v st1 st2 H1 IH Hs F V C D w Hst He Hin Hcov Hag.
    reg_ev H1 Hst He S1 R1. destruct (IH F V C D w Hst He Hin Hcov Hag) as [w1 [D1 A1]]. adv S1 Hin Hcov.
    pose proof (env_set_agree F1 V1 C D st1 w1 env x v Hst0 (proj1 Hin0) A1 (iF _ He)) as G. rewrite Hs in G.
    destruct G as [w2 [E2 A2]]. exists w2. split; [eapply ev_set; eassumption|exact A2].
  - (* ev_set_unbound *)
    intros st env x e l v st1 H1 IH Hs F V C D w Hst He Hin Hcov Hag.
    reg_ev H1 Hst He S1 R1. destruct (IH F V C D w Hst He Hin Hcov Hag) as [w1 [D1 A1]]. adv S1 Hin Hcov.
    pose proof (env_set_agree F1 V1 C D st1 w1 env x v Hst0 (proj1 Hin0) A1 (iF _ He)) as G. rewrite Hs in G.
    exists w1. split; [eapply ev_set_unbound; eassumption|exact A1].
  - (* ev_set_fail *)
    intros st env x e l r st1 H1 IH Fr F V C D w Hst He Hin Hcov Hag.
    destruct (IH F V C D w Hst He Hin Hcov Hag) as [w1 [D1 A1]]. exists w1. split; [now apply ev_set_fail|exact A1].
  - (* ev_if_true *)
    intros st env c t alt l cv st1 r st2 H1 IHc Ht H2 IHt F V C D w Hst He Hin Hcov Hag.
    reg_ev H1 Hst He S1 R1. destruct (IHc F V C D w Hst He Hin Hcov Hag) as [w1 [D1 A1]]. adv S1 Hin Hcov.
    destruct (IHt F1 V1 C D w1 Hst0 (iF _ He) Hin0 Hcov0 A1) as [w2 [D2 A2]].
    exists w2. split; [eapply ev_if_true; eassumption|exact A2].
  - (* ev_if_false *)
    intros st env c t a l cv st1 r st2 H1 IHc Ht H2 IHt F V C D w Hst He Hin Hcov Hag.
    reg_ev H1 Hst He S1 R1. destruct (IHc F V C D w Hst He Hin Hcov Hag) as [w1 [D1 A1]]. adv S1 Hin Hcov.
    destruct (IHt F1 V1 C D w1 Hst0 (iF _ He) Hin0 Hcov0 A1) as [w2 [D2 A2]].
    exists w2. split; [eapply ev_if_false; eassumption|exact A2].
  - (* ev_if_false_none *)
    intros st env c t l cv st1 H1 IHc Ht F V C D w Hst He Hin Hcov Hag.
    destruct (IHc F V C D w Hst He Hin Hcov Hag) as [w1 [D1 A1]]. exists w1. split; [eapply ev_if_false_none; eassumption|exact A1].
  - (* ev_if_fail *)
    intros st env c t alt l r st1 H1 IH Fr F V C D w Hst He Hin Hcov Hag.
    destruct (IH F V C D w Hst He Hin Hcov Hag) as [w1 [D1 A1]]. exists w1. split; [now apply ev_if_fail|exact A1].
  - (* ev_call *)
    intros st env fe args l fv st1 vs st2 r st3 H1 IHf H2 IHa Hp H3 IHapp F V C D w Hst He Hin Hcov Hag.
    reg_ev H1 Hst He S1 R1. destruct (IHf F V C D w Hst He Hin Hcov Hag) as [w1 [D1 A1]]. adv S1 Hin Hcov.
    reg_evs H2 Hst0 (iF _ He) S2 R2. destruct (IHa F1 V1 C D w1 Hst0 (iF _ He) Hin0 Hcov0 A1) as [w2 [D2 A2]]. adv S2 Hin0 Hcov0.
    assert (Hfv : vok F0 V0 fv) by (eapply vok_mono; [| |exact (R1 fv eq_refl)]; assumption).
    destruct (IHapp F0 V0 C D w2 Hst1 Hfv (R2 vs eq_refl) Hin1 Hcov1 A2) as [w3 [D3 A3]].
    exists w3. split; [eapply ev_call; eassumption|exact A3].
  - (* ev_call_fail_operator *)
    intros st env fe args l r st1 H1 IH Fr F V C D w Hst He Hin Hcov Hag.
    destruct (IH F V C D w Hst He Hin Hcov Hag) as [w1 [D1 A1]]. exists w1. split; [now apply ev_call_fail_operator|exact A1].
  - (* ev_call_fail_operand *)
    intros st env fe args l fv st1 r st2 H1 IHf H2 IHa Fr F V C D w Hst He Hin Hcov Hag.
    reg_ev H1 Hst He S1 R1. destruct (IHf F V C D w Hst He Hin Hcov Hag) as [w1 [D1 A1]]. adv S1 Hin Hcov.
    destruct (IHa F1 V1 C D w1 Hst0 (iF _ He) Hin0 Hcov0 A1) as [w2 [D2 A2]].
    exists w2. split; [eapply ev_call_fail_operand; eassumption|exact A2].
  - (* ev_call_not_procedure *)
    intros st env fe args l fv st1 r st2 l' H1 IHf H2 IHa Nr Hp Hl F V C D w Hst He Hin Hcov Hag.
    reg_ev H1 Hst He S1 R1. destruct (IHf F V C D w Hst He Hin Hcov Hag) as [w1 [D1 A1]]. adv S1 Hin Hcov.
    destruct (IHa F1 V1 C D w1 Hst0 (iF _ He) Hin0 Hcov0 A1) as [w2 [D2 A2]].
    exists w2. split; [eapply ev_call_not_procedure; eassumption|exact A2].
  - (* evs_nil *) intros st env F V C D w Hst He Hin Hcov Hag. exists w. split; [constructor|exact Hag].
  - (* evs_cons *)
    intros st env e es v st1 vs st2 H1 IHe H2 IHes F V C D w Hst He Hin Hcov Hag.
    reg_ev H1 Hst He S1 R1. destruct (IHe F V C D w Hst He Hin Hcov Hag) as [w1 [D1 A1]]. adv S1 Hin Hcov.
    destruct (IHes F1 V1 C D w1 Hst0 (iF _ He) Hin0 Hcov0 A1) as [w2 [D2 A2]].
    exists w2. split; [eapply evs_cons; eassumption|exact A2].
  - (* evs_fail_head *)
    intros st env e es r st1 H1 IH Fr F V C D w Hst He Hin Hcov Hag.
    destruct (IH F V C D w Hst He Hin Hcov Hag) as [w1 [D1 A1]]. exists w1. split; [now apply evs_fail_head|exact A1].
  - (* evs_fail_tail *)
    intros st env e es v st1 r st2 H1 IHe H2 IHes Fr F V C D w Hst He Hin Hcov Hag.
    reg_ev H1 Hst He S1 R1. destruct (IHe F V C D w Hst He Hin Hcov Hag) as [w1 [D1 A1]]. adv S1 Hin Hcov.
    destruct (IHes F1 V1 C D w1 Hst0 (iF _ He) Hin0 Hcov0 A1) as [w2 [D2 A2]].
    exists w2. split; [eapply evs_fail_tail; eassumption|exact A2].
  - (* app_unknown_builtin *)
    intros st name args Ha F V C D w Hst Hp Hargs Hin Hcov Hag. exists w. split; [now constructor|exact Hag].
  - (* app_arity *)
    intros st p args fixed variadic Ha Hok F V C D w Hst Hp Hargs Hin Hcov Hag. exists w. split; [eapply app_arity; eassumption|exact Hag].
  - (* app_builtin *)
    intros st name args fixed variadic r st' Ha Hok Hn Hb F V C D w Hst Hp Hargs Hin Hcov Hag.
    destruct (builtin_call_agree name args F V C D st w r st' Hst Hargs (proj2 Hin) Hag Hb) as [w' [E A]].
    exists w'. split; [eapply app_builtin; eassumption|exact A].
  - (* app_apply_nil *)
    intros st p r st' Hp H1 IH F V C D w Hst Hpv Hargs Hin Hcov Hag. inversion Hargs; subst.
    destruct (IH F V C D w Hst ltac:(assumption) ltac:(constructor) Hin Hcov Hag) as [w1 [D1 A1]].
    exists w1. split; [now apply app_apply_nil|exact A1].
  - (* app_apply *)
    intros st p init last r st' Hp Hl H1 IH F V C D w Hst Hpv Hargs Hin Hcov Hag. inversion Hargs as [|? ? Hpok Hrest]; subst.
    apply Forall_app in Hrest. destruct Hrest as [Hinit Hlast]. inversion Hlast; subst.
    assert (Hall : Forall (vok F V) (init ++ vitems last)) by (apply Forall_app; split; [exact Hinit|now apply vok_vitems]).
    destruct (IH F V C D w Hst Hpok Hall Hin Hcov Hag) as [w1 [D1 A1]].
    exists w1. split; [now apply app_apply|exact A1].
  - (* app_apply_not_list *)
    intros st p init last Hp Hl F V C D w Hst Hpv Hargs Hin Hcov Hag. exists w. split; [now apply app_apply_not_list|exact Hag].
  - (* app_apply_not_procedure *)
    intros st p rest Hp F V C D w Hst Hpv Hargs Hin Hcov Hag. exists w. split; [now apply app_apply_not_procedure|exact Hag].
  - (* app_user *)
    intros st fm defs body closure args r st' Hok H1 IH F V C D w Hst Hpv Hargs Hin Hcov Hag.
    destruct (IH F V C D w Hst Hpv Hargs Hin Hcov Hag) as [w1 [D1 A1]]. exists w1. split; [now apply app_user|exact A1].
  - (* evproc_body *)
    intros st fm defs body closure args surplus st1 st2 u st3 r st4 Hb Est2 H3 IHd H4 IHb F V C D w Hst Hc Hargs Hin Hcov Hag.
    destruct (alloc_frame_ok F V st (Some closure) Hst ltac:(intros q E; injection E as <-; exact Hc)) as [S0 Hloc].
    set (F0 := ext F (length (frames st)) (S (length (frames st)))) in *.
    destruct (alloc_frame_agree C D st w (Some closure) Hag) as [Ef A0]. adv S0 Hin Hcov.
    assert (Hargs0 : Forall (vok F0 V) args) by (eapply Forall_vok_mono; [| |exact Hargs]; assumption).
    destruct (bind_fixed_ok _ F0 V _ _ _ _ _ Hst0 Hloc Hargs0 Hb) as [S1 Hsur].
    pose proof (bind_fixed_agree (f_fixed fm) C D _ _ (fst (alloc_frame st (Some closure))) args A0 (proj1 Hin0 _ Hloc)) as G.
    rewrite Hb in G. destruct G as [w1 [E1 A1]]. adv S1 Hin0 Hcov0.
    assert (S2 : step_ok F0 V st1 F0 V st2).
    { subst st2. destruct (f_rest fm) as [rest|]; [|now apply step_ok_refl].
      apply env_define_ok; auto. now apply vok_vlist. }
    set (w2 := match f_rest fm with
               | Some rest => env_define w1 (fst (alloc_frame st (Some closure))) rest (vlist surplus)
               | None => w1 end).
    assert (A2 : agree C D st2 w2).
    { subst st2 w2. destruct (f_rest fm) as [rest|]; [|exact A1]. apply env_define_agree; [exact A1|exact (proj1 Hin0 _ Hloc)]. }
    adv S2 Hin1 Hcov1.
    destruct (proj1 (proj2 (proj2 (proj2 (proj2 region_all)))) _ _ _ _ _ H3 _ _ Hst2 Hloc) as [F3 [V3 S3]].
    destruct (IHd F0 V C D w2 Hst2 Hloc Hin2 Hcov2 A2) as [w3 [D3 A3]]. adv S3 Hin2 Hcov2.
    destruct (IHb F3 V3 C D w3 Hst3 (iF2 _ Hloc) Hin3 Hcov3 A3) as [w4 [D4 A4]].
    exists w4. split; [|exact A4]. subst w2. rewrite <- Ef in *. eapply evproc_body; [exact E1|reflexivity|exact D3|exact D4].
  - (* evproc_defs_fail *)
    intros st fm defs body closure args surplus st1 st2 rd st3 Hb Est2 H3 IHd Fd F V C D w Hst Hc Hargs Hin Hcov Hag.
    destruct (alloc_frame_ok F V st (Some closure) Hst ltac:(intros q E; injection E as <-; exact Hc)) as [S0 Hloc].
    set (F0 := ext F (length (frames st)) (S (length (frames st)))) in *.
    destruct (alloc_frame_agree C D st w (Some closure) Hag) as [Ef A0]. adv S0 Hin Hcov.
    assert (Hargs0 : Forall (vok F0 V) args) by (eapply Forall_vok_mono; [| |exact Hargs]; assumption).
    destruct (bind_fixed_ok _ F0 V _ _ _ _ _ Hst0 Hloc Hargs0 Hb) as [S1 Hsur].
    pose proof (bind_fixed_agree (f_fixed fm) C D _ _ (fst (alloc_frame st (Some closure))) args A0 (proj1 Hin0 _ Hloc)) as G.
    rewrite Hb in G. destruct G as [w1 [E1 A1]]. adv S1 Hin0 Hcov0.
    assert (S2 : step_ok F0 V st1 F0 V st2).
    { subst st2. destruct (f_rest fm) as [rest|]; [|now apply step_ok_refl].
      apply env_define_ok; auto. now apply vok_vlist. }
    set (w2 := match f_rest fm with
               | Some rest => env_define w1 (fst (alloc_frame st (Some closure))) rest (vlist surplus)
               | None => w1 end).
    assert (A2 : agree C D st2 w2).
    { subst st2 w2. destruct (f_rest fm) as [rest|]; [|exact A1]. apply env_define_agree; [exact A1|exact (proj1 Hin0 _ Hloc)]. }
    adv S2 Hin1 Hcov1.
    destruct (IHd F0 V C D w2 Hst2 Hloc Hin2 Hcov2 A2) as [w3 [D3 A3]].
    exists w3. split; [|exact A3]. subst w2. rewrite <- Ef in *. eapply evproc_defs_fail; [exact E1|reflexivity|exact D3|exact Fd].
  - (* evproc_bind_fail *)
    intros st fm defs body closure args rb Hb Fb F V C D w Hst Hc Hargs Hin Hcov Hag.
    destruct (alloc_frame_ok F V st (Some closure) Hst ltac:(intros q E; injection E as <-; exact Hc)) as [S0 Hloc].
    destruct (alloc_frame_agree C D st w (Some closure) Hag) as [Ef A0]. adv S0 Hin Hcov.
    pose proof (bind_fixed_agree (f_fixed fm) C D _ _ (fst (alloc_frame st (Some closure))) args A0 (proj1 Hin0 _ Hloc)) as G.
    rewrite Hb in G. exists (snd (alloc_frame w (Some closure))). split; [|exact A0].
    rewrite <- Ef in *. apply evproc_bind_fail; [|exact Fb].
    destruct rb as [[rest s']|k l|s|]; [contradiction|exact G..].
  - (* evdefs_nil *) intros st env F V C D w Hst He Hin Hcov Hag. exists w. split; [constructor|exact Hag].
  - (* evdefs_cons *)
    intros st env x e l ds v st1 r st2 H1 IHe H2 IHd F V C D w Hst He Hin Hcov Hag.
    reg_ev H1 Hst He S1 R1. destruct (IHe F V C D w Hst He Hin Hcov Hag) as [w1 [D1 A1]]. adv S1 Hin Hcov.
    pose proof (env_define_ok F1 V1 st1 env x v Hst0 (iF _ He) (R1 v eq_refl)) as S2. adv S2 Hin0 Hcov0.
    pose proof (env_define_agree C D st1 w1 env x v A1 (proj1 Hin0 _ (iF _ He))) as A2.
    destruct (IHd F1 V1 C D _ Hst1 (iF _ He) Hin1 Hcov1 A2) as [w3 [D3 A3]].
    exists w3. split; [eapply evdefs_cons; eassumption|exact A3].
  - (* evdefs_fail *)
    intros st env x e l ds r st1 H1 IH Fr F V C D w Hst He Hin Hcov Hag.
    destruct (IH F V C D w Hst He Hin Hcov Hag) as [w1 [D1 A1]]. exists w1. split; [now apply evdefs_fail|exact A1].
  - (* evbody_empty *) intros st env F V C D w Hst He Hin Hcov Hag. exists w. split; [constructor|exact Hag].
  - (* evbody_last *)
    intros st env e r st' H1 IH F V C D w Hst He Hin Hcov Hag.
    destruct (IH F V C D w Hst He Hin Hcov Hag) as [w1 [D1 A1]]. exists w1. split; [now apply evbody_last|exact A1].
  - (* evbody_cons *)
    intros st env e e2 es v st1 r st2 H1 IHe H2 IHb F V C D w Hst He Hin Hcov Hag.
    reg_ev H1 Hst He S1 R1. destruct (IHe F V C D w Hst He Hin Hcov Hag) as [w1 [D1 A1]]. adv S1 Hin Hcov.
    destruct (IHb F1 V1 C D w1 Hst0 (iF _ He) Hin0 Hcov0 A1) as [w2 [D2 A2]].
    exists w2. split; [eapply evbody_cons; eassumption|exact A2].
  - (* evbody_fail *)
    intros st env e e2 es r st1 H1 IH Fr F V C D w Hst He Hin Hcov Hag.
    destruct (IH F V C D w Hst He Hin Hcov Hag) as [w1 [D1 A1]]. exists w1. split; [now apply evbody_fail|exact A1].
Qed.

(** * consequences *)

(** [w] has the size of [st] and holds the same frames on [F], the same vectors on [V] *)
Definition same_on (F V : nset) (st w : state) : Prop := agree F V st w.

Lemma agree_cover : forall F V st w, same_on F V st w ->
  agree (fun a => F a \/ length (frames st) <= a) (fun x => V x \/ length (vectors st) <= x) st w.
Proof.
  intros F V st w [A [B [P Q]]]. repeat split; try assumption.
  - intros a [Ha|Ha]; [now apply P|].
    transitivity (@None frame); [|symmetry]; apply nth_error_None; lia.
  - intros x [Hx|Hx]; [now apply Q|].
    transitivity (@None (list value)); [|symmetry]; apply nth_error_None; lia.
Qed.

(** THE READ HALF. An evaluation started in a region gives the same result - the same value, the same error with
    the same location - from every state of the same size that holds the same frames and vectors on the region,
    whatever that state holds elsewhere; and the two states reached hold the same frames and vectors on the
    region reached (the region it started with and what it allocated). Together with [outside_untouched]
    (it writes nothing outside the region) this is non-interference in both directions. *)
Theorem evaluation_reads_only_its_region : forall st env e r st' F V w,
  ev st env e r st' -> stok F V st -> F env -> same_on F V st w ->
  exists w', ev w env e r w' /\
    forall F' V', step_ok F V st F' V' st' -> same_on F' V' st' w'.
Proof.
  intros st env e r st' F V w H Hst He Hs.
  set (C := fun a => F a \/ length (frames st) <= a). set (D := fun x => V x \/ length (vectors st) <= x).
  assert (Hin : inreg F V C D) by (split; intros a Ha; now left).
  assert (Hcov : cover C D st) by (split; intros a Ha; now right).
  destruct (proj1 local_all _ _ _ _ _ H F V C D w Hst He Hin Hcov (agree_cover F V st w Hs)) as [w' [D' A']].
  exists w'. split; [exact D'|]. intros F' V' S. destruct (advance _ _ _ _ _ _ _ _ S Hin Hcov) as [_ [[I1 I2] _]].
  destruct A' as [A [B [P Q]]]. repeat split; try assumption.
  - intros a Ha. apply P. now apply I1.
  - intros x Hx. apply Q. now apply I2.
Qed.

(** the same for the application of a procedure of the region to arguments of the region *)
Theorem application_reads_only_its_region : forall st p args r st' F V w,
  app st p args r st' -> stok F V st -> vok F V p -> Forall (vok F V) args -> same_on F V st w ->
  exists w', app w p args r w' /\
    forall F' V', step_ok F V st F' V' st' -> same_on F' V' st' w'.
Proof.
  intros st p args r st' F V w H Hst Hp Ha Hs.
  set (C := fun a => F a \/ length (frames st) <= a). set (D := fun x => V x \/ length (vectors st) <= x).
  assert (Hin : inreg F V C D) by (split; intros a Hx; now left).
  assert (Hcov : cover C D st) by (split; intros a Hx; now right).
  destruct (proj1 (proj2 (proj2 local_all)) _ _ _ _ _ H F V C D w Hst Hp Ha Hin Hcov (agree_cover F V st w Hs)) as [w' [D' A']].
  exists w'. split; [exact D'|]. intros F' V' S. destruct (advance _ _ _ _ _ _ _ _ S Hin Hcov) as [_ [[I1 I2] _]].
  destruct A' as [A [B [P Q]]]. repeat split; try assumption.
  - intros a Hx. apply P. now apply I1.
  - intros x Hx. apply Q. now apply I2.
Qed.

(** for the evaluator of the model: a value computed from [st] is computed from [w] as well (with enough fuel) *)
Theorem eval_value_independent_of_the_rest : forall fuel e env st v st' F V w,
  eval_expr fuel e env st = (Ok v, st') -> stok F V st -> F env -> same_on F V st w ->
  exists n w', (forall f, n <= f -> eval_expr f e env w = (Ok v, w')) /\
    forall F' V', step_ok F V st F' V' st' -> same_on F' V' st' w'.
Proof.
  intros fuel e env st v st' F V w H Hst He Hs.
  assert (D : ev st env e (Ok v) st') by (refine (s_expr fuel (sound_all fuel) _ _ _ _ _ H _); discriminate).
  destruct (evaluation_reads_only_its_region _ _ _ _ _ F V w D Hst He Hs) as [w' [D' A']].
  destruct (ev_complete _ _ _ _ _ D') as [n Hn]. exists n, w'. split; [exact Hn|exact A'].
Qed.

(** and an error stays an error, reached in the corresponding state *)
Theorem eval_failure_independent_of_the_rest : forall fuel e env st r st' F V w,
  eval_expr fuel e env st = (r, st') -> failed r -> stok F V st -> F env -> same_on F V st w ->
  exists r' n w', failed r' /\ (forall f, n <= f -> eval_expr f e env w = (r', w')) /\
    forall F' V', step_ok F V st F' V' st' -> same_on F' V' st' w'.
Proof.
  intros fuel e env st r st' F V w H Fr Hst He Hs.
  assert (D : ev st env e r st').
  { refine (s_expr fuel (sound_all fuel) _ _ _ _ _ H _). intros ->. exact Fr. }
  destruct (evaluation_reads_only_its_region _ _ _ _ _ F V w D Hst He Hs) as [w' [D' A']].
  destruct (ev_failure_complete _ _ _ _ _ D' Fr) as [r' [Fr' [n Hn]]]. exists r', n, w'. split; [exact Fr'|]. split; [exact Hn|exact A'].
Qed.

(** two instances: whatever the second one's frames and vectors hold - [w] differs from [st] only outside the
    first one's region - the first one computes the same, and leaves the second one's as they were *)
Theorem two_instances_do_not_see_each_other : forall st env e r st' F1 V1 F2 V2 w,
  ev st env e r st' -> stok F1 V1 st -> stok F2 V2 st -> disjoint F1 F2 -> disjoint V1 V2 -> F1 env ->
  same_on F1 V1 st w ->
  exists w', ev w env e r w' /\
    (forall a, F2 a -> nth_error (frames st') a = nth_error (frames st) a) /\
    (forall x, V2 x -> nth_error (vectors st') x = nth_error (vectors st) x) /\
    (forall a, F2 a -> nth_error (frames w') a = nth_error (frames w) a) /\
    (forall x, V2 x -> nth_error (vectors w') x = nth_error (vectors w) x).
Proof.
  intros st env e r st' F1 V1 F2 V2 w H H1 H2 DF DV He Hs.
  destruct (evaluation_reads_only_its_region _ _ _ _ _ F1 V1 w H H1 He Hs) as [w' [D' A']].
  exists w'. split; [exact D'|].
  destruct (two_regions _ _ _ _ _ F1 V1 F2 V2 H H1 H2 DF DV He) as [F1' [V1' [_ [_ [_ [_ [_ [_ [KF [KV _]]]]]]]]]].
  split; [exact KF|]. split; [exact KV|].
  assert (W1 : stok F1 V1 w).
  { destruct Hs as [A [B [P Q]]]. split.
    - intros a Ha. rewrite (P a Ha). exact (proj1 H1 a Ha).
    - intros x Hx. rewrite (Q x Hx). exact (proj2 H1 x Hx). }
  pose proof (outside_untouched _ _ _ _ _ F1 V1 D' W1 He) as [UF UV].
  destruct Hs as [A [B _]]. split.
  - intros a Ha. apply UF; [rewrite A; eapply F_lt; eassumption|]. intro Hb. exact (DF a Hb Ha).
  - intros x Hx. apply UV; [rewrite B; eapply V_lt; eassumption|]. intro Hb. exact (DV x Hb Hx).
Qed.

(** the hypotheses can be met: the start-up region of a fresh instance, and a state that differs outside it *)
Example same_on_is_not_equality :
  let st := {| frames := [{| f_parent := None; f_defs := [] |}; {| f_parent := None; f_defs := [] |}];
               vectors := []; out := []; ticks := [] |} in
  let w := {| frames := [{| f_parent := None; f_defs := [] |}; {| f_parent := None; f_defs := [([120%N], VNil)] |}];
              vectors := []; out := []; ticks := [] |} in
  same_on (fun a => a = 0) (fun _ => False) st w /\ stok (fun a => a = 0) (fun _ => False) st /\ st <> w.
Proof.
  cbn. split; [|split].
  - split; [reflexivity|]. split; [reflexivity|]. split; [intros a ->; reflexivity|intros x []].
  - split; [|intros x []]. intros a ->. eexists. split; [reflexivity|]. split; [intros p E; discriminate|constructor].
  - intro E. discriminate E.
Qed.

