(** C11: the procedures of the list library that are written in Scheme (base.sld), proved about the
    code that is in /repo now: Gen/BaseSld.v is regenerated from base.sld on every run, the library
    is parsed inside Coq with the model's own reader, expander and transformer, and every theorem
    below is about the closures that evaluating those definitions creates.

    Each theorem has the shape: in any state in which the library frame [lf] holds the library's
    definitions (that is so after start-up: [boot_has_library]), applying the procedure to arguments
    of the stated shape yields the specified value, by the rules of Spec/EvalSpec.v, in a state that
    only has additional frames ([keeps]): no existing frame, vector, output or tick is touched.
    Through Proofs/FuelProofs.v the evaluator of the model returns exactly that value.

    The theorems do not mention source locations or the layout of base.sld; a change of what a
    procedure computes breaks its proof. *)
From Coq Require Import ZArith NArith List Bool Lia PeanoNat.
From RV Require Import Model.Common Model.Real32 Model.Num Model.Datum Model.Lexer Model.Reader Model.Macro
  Model.Ast Model.Transform Model.Value Model.Equal Model.Print Model.Builtins Model.Eval Model.Interp
  Spec.EvalSpec Spec.ListSpec Gen.GrammarSld Gen.BaseSld Proofs.Basics Proofs.StoreProofs Proofs.EvalProofs Proofs.FuelProofs
  Proofs.DerivedProofs.
Import ListNotations.

(** * the library as parsed from the text in /repo *)

Definition dummy_inst : instance :=
  {| i_env := 0; i_factories := []; i_in_progress := []; i_libraries := []; i_import_end := false; i_progdir := None |}.

Definition base_decls : list libdecl := Eval vm_compute in
  match factory_from_text name_scheme_base base_sld_text {| c_inst := dummy_inst; c_st := empty_state; c_syn := G |} with
  | (Ok (FAst decls), _) => decls
  | _ => []
  end.

Definition lib_body : list stmt := Eval vm_compute in
  flat_map (fun d => match d with LDBegin b _ => b | _ => [] end) base_decls.

(** the procedures the library defines: name, parameters, internal definitions, body *)
Definition code := (formals * list (str * expr * loc) * list expr)%type.
Definition lib_codes : list (str * code) := Eval vm_compute in
  flat_map (fun x => match x with SDef x (ELambda fm ds body _) _ => [(x, (fm, ds, body))] | _ => [] end) lib_body.

Definition closure (c : code) (env : nat) : value :=
  let '(fm, ds, body) := c in VProcU fm ds body env.

Definition code_of (name : list Z) : option code := alist_get lib_codes (s name).

(** the i-th parameter / the rest parameter of a library procedure, as named in the source *)
Definition par (name : list Z) (i : nat) : str :=
  match code_of name with Some (fm, _, _) => nth i (f_fixed fm) [] | None => [] end.
Definition rst (name : list Z) : str :=
  match code_of name with Some (fm, _, _) => match f_rest fm with Some r => r | None => [] end | None => [] end.

(** the native procedures the library's code refers to *)
Definition natives : list str := map s
  [[99;97;114]; [99;100;114]; [99;111;110;115]; [101;113;118;63]; [101;113;63]; [112;97;105;114;63]; [110;111;116];
   [97;112;112;108;121]; [61]; [45]; [62]]%Z.

(** * states *)

(** [lf] is the library's frame: a root frame holding the closures of the library's definitions
    (over [lf] itself) and the natives *)
Definition has_library (st : state) (lf : nat) : Prop :=
  exists defs, nth_error (frames st) lf = Some {| f_parent := None; f_defs := defs |} /\
    Forall (fun nc => alist_get defs (fst nc) = Some (closure (snd nc) lf)) lib_codes /\
    Forall (fun n => alist_get defs n = Some (VProcB n)) natives.

(** [st'] has the frames of [st] unchanged, possibly more frames, and the same vectors, output, ticks *)
Definition keeps (st st' : state) : Prop :=
  (forall a, a < length (frames st) -> nth_error (frames st') a = nth_error (frames st) a) /\
  length (frames st) <= length (frames st') /\
  vectors st' = vectors st /\ out st' = out st /\ ticks st' = ticks st.

Lemma keeps_refl : forall st, keeps st st.
Proof. intros st. repeat split; auto. Qed.

Lemma keeps_trans : forall a b c, keeps a b -> keeps b c -> keeps a c.
Proof.
  intros a b c [H1 [L1 [V1 [O1 T1]]]] [H2 [L2 [V2 [O2 T2]]]]. repeat split; try congruence; try lia.
  intros x Hx. rewrite H2 by lia. now apply H1.
Qed.

Lemma keeps_frame : forall st st' a fr, keeps st st' -> nth_error (frames st) a = Some fr ->
  nth_error (frames st') a = Some fr.
Proof.
  intros st st' a fr [H _] E. rewrite H; [exact E|]. apply nth_error_Some. now rewrite E.
Qed.

Lemma has_library_keeps : forall st st' lf, has_library st lf -> keeps st st' -> has_library st' lf.
Proof.
  intros st st' lf [defs [E [H1 H2]]] K. exists defs. split; [|now split]. eapply keeps_frame; eassumption.
Qed.

(** * looking a variable up along a chain of frames *)

Lemma env_get_fuel_more : forall n fs a x v, env_get_fuel n fs a x = Some v ->
  forall m, n <= m -> env_get_fuel m fs a x = Some v.
Proof.
  induction n as [|n IH]; intros fs a x v H m L; [discriminate|].
  destruct m; [lia|]. cbn [env_get_fuel] in *.
  destruct (nth_error fs a) as [fr|]; [|discriminate].
  destruct (alist_get (f_defs fr) x); [exact H|].
  destruct (f_parent fr); [|discriminate]. apply IH; [exact H|lia].
Qed.

Lemma lk_here : forall n st a x v fr, nth_error (frames st) a = Some fr -> alist_get (f_defs fr) x = Some v ->
  env_get_fuel (S n) (frames st) a x = Some v.
Proof. intros n st a x v fr E1 E2. cbn [env_get_fuel]. now rewrite E1, E2. Qed.

Lemma lk_up : forall n st a x v fr p, nth_error (frames st) a = Some fr -> alist_get (f_defs fr) x = None ->
  f_parent fr = Some p -> env_get_fuel n (frames st) p x = Some v ->
  env_get_fuel (S n) (frames st) a x = Some v.
Proof. intros n st a x v fr p E1 E2 E3 H. cbn [env_get_fuel]. now rewrite E1, E2, E3. Qed.

Lemma lk_env_get : forall n st a x v, env_get_fuel n (frames st) a x = Some v ->
  n <= S (length (frames st)) -> env_get st a x = Some v.
Proof. intros n st a x v H L. unfold env_get. eapply env_get_fuel_more; eassumption. Qed.

(** * entering a procedure *)

Fixpoint bind_defs (names : list str) (args : list value) (acc : list (str * value))
  : option (list (str * value) * list value) :=
  match names with
  | [] => Some (acc, args)
  | x :: xs => match args with
               | [] => None
               | v :: vs => bind_defs xs vs (alist_set acc x v)
               end
  end.

Definition with_frame (st : state) (a : nat) (fr : frame) : state :=
  set_frames st (list_update (frames st) a fr).

Lemma with_frame_same : forall st a fr, nth_error (frames st) a = Some fr -> with_frame st a fr = st.
Proof.
  intros [fs vs o t] a fr E. unfold with_frame, set_frames. cbn in *. f_equal.
  revert a E. induction fs as [|x r IH]; intros [|a] E; cbn in *; try discriminate; try reflexivity.
  - now injection E as ->.
  - f_equal. now apply IH.
Qed.

Lemma with_frame_twice : forall st a f1 f2, with_frame (with_frame st a f1) a f2 = with_frame st a f2.
Proof.
  intros [fs vs o t] a f1 f2. unfold with_frame, set_frames. cbn. f_equal.
  revert a. induction fs as [|x r IH]; intros [|a]; cbn; try reflexivity. f_equal. apply IH.
Qed.

Lemma bind_fixed_defs : forall names args st a p acc acc' surplus,
  nth_error (frames st) a = Some {| f_parent := p; f_defs := acc |} ->
  bind_defs names args acc = Some (acc', surplus) ->
  bind_fixed st a names args = Ok (surplus, with_frame st a {| f_parent := p; f_defs := acc' |}).
Proof.
  induction names as [|x xs IH]; intros args st a p acc acc' surplus E B; cbn in *.
  - injection B as <- <-. now rewrite with_frame_same.
  - destruct args as [|v vs]; [discriminate|].
    assert (ED : env_define st a x v = with_frame st a {| f_parent := p; f_defs := alist_set acc x v |}).
    { unfold env_define. now rewrite E. }
    rewrite ED. erewrite IH; [|apply nth_error_update_same; apply nth_error_Some; now rewrite E|exact B].
    now rewrite with_frame_twice.
Qed.

(** the state in which the body of a procedure runs: one more frame, holding the parameters *)
Definition enter (st : state) (closure_env : nat) (defs : list (str * value)) : state :=
  set_frames st (frames st ++ [{| f_parent := Some closure_env; f_defs := defs |}]).

Lemma enter_keeps : forall st c defs, keeps st (enter st c defs).
Proof.
  intros st c defs. unfold enter. repeat split; cbn; try reflexivity.
  - intros a L. now rewrite nth_error_app1.
  - rewrite app_length. lia.
Qed.

Lemma enter_local : forall st c defs,
  nth_error (frames (enter st c defs)) (length (frames st)) = Some {| f_parent := Some c; f_defs := defs |}.
Proof. intros. unfold enter. cbn. rewrite nth_error_app2 by lia. now rewrite Nat.sub_diag. Qed.

Lemma list_update_last : forall {A} (l : list A) x y, list_update (l ++ [x]) (length l) y = l ++ [y].
Proof. induction l as [|z r IH]; intros; cbn; [reflexivity|]. now rewrite IH. Qed.

Theorem enter_proc : forall st fm ds body cl args acc surplus u st2 r st',
  arity_ok (length args) (length (f_fixed fm)) (match f_rest fm with Some _ => true | None => false end) = true ->
  bind_defs (f_fixed fm) args [] = Some (acc, surplus) ->
  evdefs (enter st cl (match f_rest fm with Some rest => alist_set acc rest (vlist surplus) | None => acc end))
         (length (frames st)) ds (Ok u) st2 ->
  evbody st2 (length (frames st)) body r st' ->
  app st (VProcU fm ds body cl) args r st'.
Proof.
  intros st fm ds body cl args acc surplus u st2 r st' Har Hb Hd Hbody.
  apply app_user; [exact Har|].
  assert (E0 : nth_error (frames (snd (alloc_frame st (Some cl)))) (length (frames st))
               = Some {| f_parent := Some cl; f_defs := [] |}).
  { cbn. rewrite nth_error_app2 by lia. now rewrite Nat.sub_diag. }
  pose proof (bind_fixed_defs _ _ _ _ _ _ _ _ E0 Hb) as HB.
  assert (EW : with_frame (snd (alloc_frame st (Some cl))) (length (frames st)) {| f_parent := Some cl; f_defs := acc |}
               = enter st cl acc).
  { unfold with_frame, enter, set_frames. cbn. now rewrite list_update_last. }
  rewrite EW in HB.
  eapply evproc_body; [exact HB|reflexivity| |].
  - cbn [fst alloc_frame].
    replace (match f_rest fm with
             | Some rest => env_define (enter st cl acc) (length (frames st)) rest (vlist surplus)
             | None => enter st cl acc
             end)
      with (enter st cl (match f_rest fm with Some rest => alist_set acc rest (vlist surplus) | None => acc end)).
    + exact Hd.
    + destruct (f_rest fm) as [rest|]; [|reflexivity].
      unfold env_define. rewrite enter_local. unfold enter, set_frames. cbn. now rewrite list_update_last.
  - exact Hbody.
Qed.

(** * tactics that build derivations *)

Lemma lib_native : forall defs x, Forall (fun n => alist_get defs n = Some (VProcB n)) natives ->
  In x natives -> alist_get defs x = Some (VProcB x).
Proof. intros defs x F I. rewrite Forall_forall in F. now apply F. Qed.

Lemma lib_code : forall defs lf x c,
  Forall (fun nc => alist_get defs (fst nc) = Some (closure (snd nc) lf)) lib_codes ->
  In (x, c) lib_codes -> alist_get defs x = Some (closure c lf).
Proof. intros defs lf x c F I. rewrite Forall_forall in F. now apply (F (x, c)). Qed.

Lemma code_of_In : forall name c, code_of name = Some c -> In (s name, c) lib_codes.
Proof. intros name c H. unfold code_of in H. now apply alist_get_In. Qed.

Ltac in_list := solve [repeat (first [left; reflexivity | right])].

Ltac lib_entry :=
  first [ reflexivity
        | eapply lib_native; [eassumption | in_list]
        | eapply lib_code; [eassumption | in_list] ].

Ltac lk_chain :=
  first [ eapply (lk_here 0); [eassumption | lib_entry]
        | eapply lk_up; [eassumption | reflexivity | reflexivity | lk_chain] ].

Ltac frame_bounds :=
  repeat match goal with
         | H : nth_error (frames ?st) ?a = Some _ |- _ =>
             lazymatch goal with
             | _ : a < length (frames st) |- _ => fail
             | _ => assert (a < length (frames st)) by (apply nth_error_Some; rewrite H; discriminate)
             end
         end.

Ltac lookup := eapply lk_env_get; [lk_chain | frame_bounds; cbn [length]; lia].

Lemma ev_prim_ok : forall st env p l v, eval_primitive p = Ok v -> ev st env (EPrim p l) (Ok v) st.
Proof. intros st env p l v H. rewrite <- H. apply ev_prim. Qed.

(** equations for native calls on symbolic numbers; extended below *)
Ltac native_hint := fail.

(** expressions whose evaluation needs no decision: variables, constants, quotations, lambdas, and
    calls of native procedures on such operands *)
Ltac ev_simple :=
  lazymatch goal with
  | |- ev _ _ (ESym _ _) _ _ => eapply ev_sym; lookup
  | |- ev _ _ (EPrim _ _) _ _ => eapply ev_prim_ok; reflexivity
  | |- ev _ _ (EQuote _ _) _ _ => eapply ev_quote; reflexivity
  | |- ev _ _ (EDatum _ _) _ _ => eapply ev_datum; reflexivity
  | |- ev _ _ (ELambda _ _ _ _) _ _ => eapply ev_lambda
  | |- ev _ _ (ECall _ _ _) _ _ =>
      eapply ev_call; [ev_simple | evs_simple | reflexivity | app_native]
  end
with evs_simple :=
  lazymatch goal with
  | |- evs _ _ [] _ _ => eapply evs_nil
  | |- evs _ _ (_ :: _) _ _ => eapply evs_cons; [ev_simple | evs_simple]
  end
with app_native :=
  lazymatch goal with
  | |- app _ (VProcB _) _ _ _ =>
      eapply app_builtin; [reflexivity | reflexivity | reflexivity | first [native_hint | reflexivity]]
  | _ => eassumption
  end.

(** * list-tail, list-ref *)



Lemma sub_one : forall z, (0 < z <= i32_max)%Z -> num_sub (NInt z) (NInt 1) = NInt (z - 1).
Proof.
  intros z H. unfold num_sub, upcast, exact_ratio. cbn [Z.eqb Z.ltb Z.compare].
  change (1 =? 0)%Z with false. change (1 <? 0)%Z with false. cbn beta iota.
  rewrite Z.gcd_1_r, !Z.quot_1_r.
  assert (F : fits_i32 (z - 1) = true).
  { unfold fits_i32, i32_min, i32_max in *. apply andb_true_iff. split; apply Z.leb_le; lia. }
  rewrite F. reflexivity.
Qed.

Definition n_list_tail := [108;105;115;116;45;116;97;105;108]%Z.


(** enter a procedure: the goal becomes the evaluation of its body in the state with the parameter
    frame; the facts about frames of the old state are carried over to the new one *)
Ltac transport s s' K :=
  repeat match goal with
         | H : nth_error (frames s) ?a = Some ?fr |- _ =>
             lazymatch goal with
             | _ : nth_error (frames s') a = Some fr |- _ => fail
             | _ => pose proof (keeps_frame s s' a fr K H)
             end
         end.

Ltac enter_tac :=
  eapply enter_proc; [reflexivity | reflexivity | apply evdefs_nil | ];
  lazymatch goal with
  | |- evbody (enter ?s ?c ?d) ?a ?b ?r ?s' =>
      let d0 := eval cbv beta iota zeta delta [alist_set str_eqb N.eqb Pos.eqb andb f_rest] in d in
      let d' := eval cbn [vlist] in d0 in
      change (evbody (enter s c d') a b r s');
      let Floc := fresh "Floc" in
      pose proof (enter_local s c d') as Floc;
      transport s (enter s c d') (enter_keeps s c d')
  end.

(** an immediately applied parameterless lambda: what [begin] and the clauses of [cond] expand to *)
Ltac thunk_tac :=
  eapply ev_call; [eapply ev_lambda | eapply evs_nil | reflexivity | enter_tac; eapply evbody_last].

Ltac keeps_tac :=
  lazymatch goal with
  | |- keeps ?a ?a => apply keeps_refl
  | |- keeps ?a (enter ?b ?c ?d) => apply (keeps_trans a b (enter b c d)); [keeps_tac | apply enter_keeps]
  | |- keeps ?a ?c =>
      match goal with
      | H : keeps ?b c |- _ => apply (keeps_trans a b c); [keeps_tac | exact H]
      end
  end.

Lemma minus_call : forall st z, (0 < z <= i32_max)%Z ->
  builtin_call (s [45]%Z) [vint z; vint 1] st = (Ok (vint (z - 1)), st).
Proof.
  intros st z H. unfold builtin_call. cbn [name_is str_eqb s map Z.to_N N.eqb Pos.eqb andb].
  cbn. rewrite sub_one by exact H. reflexivity.
Qed.

Lemma list_tail_closure : forall c, code_of n_list_tail = Some c ->
  forall k st lf x y, has_library st lf -> vtail k x = Some y -> (Z.of_nat k <= i32_max)%Z ->
  exists st', app st (closure c lf) [x; vint (Z.of_nat k)] (Ok y) st' /\ keeps st st'.
Proof.
  intros c Hc. vm_compute in Hc. injection Hc as <-.
  induction k as [|k IH]; intros st lf x y HL Ht Hk.
  - (* k = 0: the list itself *)
    cbn in Ht. injection Ht as <-.
    pose proof HL as [ldefs [Flib [Fc Fn]]].
    eexists. split.
    + enter_tac.
      eapply evbody_last. eapply ev_if_true; [ev_simple|reflexivity|ev_simple].
    + apply enter_keeps.
  - (* k + 1: the tail of the cdr *)
    destruct x as [| | | | | | | |a b| | |]; try discriminate Ht. cbn [vtail] in Ht.
    pose proof HL as [ldefs [Flib [Fc Fn]]].
    pose (st1 := enter st lf [([120%N], VPair a b); ([107%N], vint (Z.of_nat (S k)))]).
    assert (K1 : keeps st st1) by apply enter_keeps.
    destruct (IH st1 lf b y (has_library_keeps _ _ _ HL K1) Ht ltac:(lia)) as [st' [Happ K2]].
    exists st'. split; [|eapply keeps_trans; eassumption].
    enter_tac.
    eapply evbody_last. eapply ev_if_false; [ev_simple|reflexivity|].
    eapply ev_call with (vs := [b; vint (Z.of_nat k)]); [ev_simple| |reflexivity|exact Happ].
    eapply evs_cons; [ev_simple|]. eapply evs_cons; [|apply evs_nil].
    eapply ev_call; [ev_simple|evs_simple|reflexivity|].
    eapply app_builtin; [reflexivity|reflexivity|reflexivity|].
    replace (Z.of_nat k) with (Z.of_nat (S k) - 1)%Z by lia. apply minus_call. lia.
Qed.

Local Open Scope Z_scope.

(** * a library procedure [name] applied to [args] yields [y], touching nothing *)
Definition lib_call (name : list Z) (args : list value) (y : value) : Prop :=
  exists c, code_of name = Some c /\
    forall st lf, has_library st lf -> exists st', app st (closure c lf) args (Ok y) st' /\ keeps st st'.

Ltac open_lib HL :=
  let ldefs := fresh "ldefs" in let Flib := fresh "Flib" in let Fc := fresh "Fc" in let Fn := fresh "Fn" in
  pose proof HL as [ldefs [Flib [Fc Fn]]].

Ltac straight :=
  eexists; split; [vm_compute; reflexivity|];
  let st := fresh "st" in let lf := fresh "lf" in let HL := fresh "HL" in
  intros st lf HL; open_lib HL;
  eexists; split; [enter_tac; eapply evbody_last; ev_simple | keeps_tac].

(** the compositions of car and cdr *)
Theorem caar_spec : forall a b c, lib_call [99;97;97;114] [VPair (VPair a b) c] a.
Proof. intros. straight. Qed.
Theorem cadr_spec : forall a b c, lib_call [99;97;100;114] [VPair a (VPair b c)] b.
Proof. intros. straight. Qed.
Theorem cdar_spec : forall a b c, lib_call [99;100;97;114] [VPair (VPair a b) c] b.
Proof. intros. straight. Qed.
Theorem cddr_spec : forall a b c, lib_call [99;100;100;114] [VPair a (VPair b c)] c.
Proof. intros. straight. Qed.
Theorem caaar_spec : forall a b c d, lib_call [99;97;97;97;114] [VPair (VPair (VPair a b) c) d] a.
Proof. intros. straight. Qed.
Theorem caadr_spec : forall a b c d, lib_call [99;97;97;100;114] [VPair a (VPair (VPair b c) d)] b.
Proof. intros. straight. Qed.
Theorem cadar_spec : forall a b c d, lib_call [99;97;100;97;114] [VPair (VPair a (VPair b c)) d] b.
Proof. intros. straight. Qed.
Theorem caddr_spec : forall a b c d, lib_call [99;97;100;100;114] [VPair a (VPair b (VPair c d))] c.
Proof. intros. straight. Qed.
Theorem cdaar_spec : forall a b c d, lib_call [99;100;97;97;114] [VPair (VPair (VPair a b) c) d] b.
Proof. intros. straight. Qed.
Theorem cdadr_spec : forall a b c d, lib_call [99;100;97;100;114] [VPair a (VPair (VPair b c) d)] c.
Proof. intros. straight. Qed.
Theorem cddar_spec : forall a b c d, lib_call [99;100;100;97;114] [VPair (VPair a (VPair b c)) d] c.
Proof. intros. straight. Qed.
Theorem cdddr_spec : forall a b c d, lib_call [99;100;100;100;114] [VPair a (VPair b (VPair c d))] d.
Proof. intros. straight. Qed.

(** (list a ...) is the list of its arguments *)
Theorem list_spec : forall args, lib_call [108;105;115;116] args (vlist args).
Proof.
  intros args. eexists; split; [vm_compute; reflexivity|]. intros st lf HL. open_lib HL.
  eexists; split.
  - eapply enter_proc; [unfold arity_ok; cbn; now rewrite orb_true_r|reflexivity|apply evdefs_nil|]. cbn [f_rest alist_set].
    eapply evbody_last. eapply ev_sym. eapply lk_env_get; [eapply (lk_here 0); [apply enter_local|reflexivity]|cbn; lia].
  - keeps_tac.
Qed.

(** null? *)
Definition n_x : str := s [120].
Definition n_k : str := s [107].
Lemma eqv_nil : forall v, value_eqv v VNil = is_nil v.
Proof. destruct v; reflexivity. Qed.

Theorem null_spec : forall x, lib_call [110;117;108;108;63] [x] (VBool (is_nil x)).
Proof.
  intros x. rewrite <- eqv_nil. straight.
Qed.

(** head, atom? *)
Theorem head_spec : forall a b, lib_call [104;101;97;100] [VPair a b] a.
Proof. intros. straight. Qed.

(** using a theorem about one library procedure inside the proof of another: the call happens in
    state [s]; the result state and the facts about it are added to the context *)
Ltac call_lib H s lf :=
  let c := fresh "c" in let Hc := fresh "Hc" in let Hf := fresh "Hf" in
  destruct H as [c [Hc Hf]]; vm_compute in Hc; injection Hc as <-;
  let HLs := fresh "HLs" in
  assert (HLs : has_library s lf) by (eapply has_library_keeps; [eassumption | keeps_tac]);
  let s2 := fresh "st" in let Happ := fresh "Happ" in let K := fresh "K" in
  destruct (Hf s lf HLs) as [s2 [Happ K]]; clear Hf;
  transport s s2 K.

Ltac start_proc st lf d :=
  let Floc := fresh "Floc" in
  pose proof (enter_local st lf d) as Floc;
  transport st (enter st lf d) (enter_keeps st lf d).

Lemma lib_call_intro : forall name args y c, code_of name = Some c ->
  (forall st lf, has_library st lf -> exists st', app st (closure c lf) args (Ok y) st' /\ keeps st st') ->
  lib_call name args y.
Proof. intros name args y c H1 H2. exists c. now split. Qed.

