(** C06 / C07: facts about the lexer model (Model/Lexer.v). *)
From Coq Require Import ZArith NArith List Bool Lia.
From RV Require Import Model.Common Model.Datum Model.Lexer Proofs.Basics.
Import ListNotations.
Local Open Scope N_scope.

Fixpoint adv_all (cs : list char) (p : pos) : pos :=
  match cs with [] => p | c :: r => adv_all r (adv c p) end.

(** take_while splits the input at the first character that fails the test *)
Lemma take_while_spec : forall f l p a r p',
  take_while f l p = (a, r, p') ->
  l = a ++ r /\ forallb f a = true /\ p' = adv_all a p /\
  match r with [] => True | c :: _ => f c = false end.
Proof.
  intros f l. induction l as [|c l IH]; intros p a r p' H; cbn in H.
  - injection H as <- <- <-. auto.
  - destruct (f c) eqn:E.
    + destruct (take_while f l (adv c p)) as [[a0 r0] p0] eqn:ET. injection H as <- <- <-.
      destruct (IH _ _ _ _ ET) as [H1 [H2 [H3 H4]]].
      split; [cbn; now rewrite <- H1|]. split; [cbn [forallb]; now rewrite E, H2|].
      split; [exact H3|exact H4].
    + injection H as <- <- <-. repeat split. exact E.
Qed.

Lemma take_while_all : forall f a r p,
  forallb f a = true -> match r with [] => True | c :: _ => f c = false end ->
  take_while f (a ++ r) p = (a, r, adv_all a p).
Proof.
  intros f a. induction a as [|c a IH]; intros r p Ha Hr; cbn in *.
  - destruct r as [|c r]; cbn; [reflexivity|]. now rewrite Hr.
  - apply andb_true_iff in Ha as [Hc Ha]. rewrite Hc, (IH r (adv c p) Ha Hr). reflexivity.
Qed.

Lemma take_while_length : forall f l p a r p', take_while f l p = (a, r, p') -> (length r <= length l)%nat.
Proof.
  intros f l p a r p' H. apply take_while_spec in H as [-> _]. rewrite app_length. lia.
Qed.

(** ** layout: white space and comments between tokens are skipped, whatever their amount *)

Lemma lex_next_S : forall f l p, lex_next (S f) l p =
  match l with
  | [] => Ok (None, [], p)
  | c :: r =>
      let p := adv c p in
      let tok (t : token) := Ok (Some (t, p), r, p) in
      let sub (x : res (token * list char * pos)) :=
        do y <- x ;; let '(t, r', p') := y in Ok (Some (t, p'), r', p') in
      if is_ws c then
        let '(_, r', p') := take_while is_ws r p in lex_next f r' p'
      else if c =? c_semi then
        let '(_, r', p') := take_while not_eol r p in lex_next f r' p'
      else if c =? c_lparen then tok TLParen
      else if c =? c_rparen then tok TRParen
      else if c =? c_hash then
        match r with
        | [] => lerr UnexpectedEnd (Some p)
        | cn :: r2 =>
            let p2 := adv cn p in
            if cn =? c_lparen then Ok (Some (TVecOpen, p2), r2, p2)
            else if cn =? c_t then Ok (Some (TPrim (PBool true), p2), r2, p2)
            else if cn =? c_f then Ok (Some (TPrim (PBool false), p2), r2, p2)
            else if cn =? c_backslash then
              match r2 with
              | [] => lerr UnexpectedEnd (Some p2)
              | cnn :: r3 => let p3 := adv cnn p2 in Ok (Some (TPrim (PChar cnn), p3), r3, p3)
              end
            else if cn =? c_u then
              match r2 with
              | [] => lerr UnrecognizedToken (Some p2)
              | c3 :: r3 =>
                  let p3 := adv c3 p2 in
                  if c3 =? c_8 then
                    match r3 with
                    | [] => lerr UnrecognizedToken (Some p3)
                    | c4 :: r4 =>
                        let p4 := adv c4 p3 in
                        if c4 =? c_lparen then Ok (Some (TByteVecOpen, p4), r4, p4)
                        else lerr UnrecognizedToken (Some p4)
                    end
                  else lerr UnrecognizedToken (Some p3)
              end
            else lerr UnrecognizedToken (Some p2)
        end
      else if c =? c_quote then tok TQuote
      else if c =? c_backquote then tok TQuasi
      else if c =? c_comma then
        match r with
        | [] => Ok (None, r, p)
        | nc :: r2 => if nc =? c_at then let p2 := adv nc p in Ok (Some (TUnquoteSplicing, p2), r2, p2)
                      else tok TUnquote
        end
      else if c =? c_dot then
        match r with
        | [] => tok TPeriod
        | nc :: _ => if is_delimiter nc then tok TPeriod else sub (lex_peculiar c r p)
        end
      else if (c =? c_plus) || (c =? c_minus) then
        match r with
        | nc :: _ => if is_digit nc || (nc =? c_dot) then sub (lex_number c r p)
                     else sub (lex_peculiar c r p)
        | [] => sub (lex_peculiar c r p)
        end
      else if c =? c_dquote then sub (lex_string (S (length r)) r p [])
      else if is_digit c then sub (lex_number c r p)
      else if c =? c_bar then sub (lex_quoted_ident r p [])
      else sub (lex_normal_ident c r p)
  end.
Proof. reflexivity. Qed.

(** a run of white space before a token: the token is lexed from the position after the run *)
Theorem lex_skip_whitespace : forall f w ws rest p,
  forallb is_ws (w :: ws) = true ->
  match rest with [] => True | c :: _ => is_ws c = false end ->
  lex_next (S f) (w :: ws ++ rest) p = lex_next f rest (adv_all (w :: ws) p).
Proof.
  intros f w ws rest p Hw Hr. rewrite lex_next_S. cbn in Hw. apply andb_true_iff in Hw as [H1 H2].
  cbv zeta. rewrite H1. rewrite (take_while_all is_ws ws rest (adv w p) H2 Hr). reflexivity.
Qed.

(** a comment runs to the end of the line and is skipped like white space *)
Theorem lex_skip_comment : forall f body rest p,
  forallb not_eol body = true ->
  match rest with [] => True | c :: _ => not_eol c = false end ->
  lex_next (S f) (c_semi :: body ++ rest) p = lex_next f rest (adv_all (c_semi :: body) p).
Proof.
  intros f body rest p Hb Hr. rewrite lex_next_S. cbv zeta.
  change (is_ws c_semi) with false. change (c_semi =? c_semi) with true. cbv iota.
  rewrite (take_while_all not_eol body rest (adv c_semi p) Hb Hr). reflexivity.
Qed.

(** parentheses and the quote mark are tokens by themselves, whatever follows them *)
Theorem lex_lparen : forall f rest p,
  lex_next (S f) (c_lparen :: rest) p = Ok (Some (TLParen, adv c_lparen p), rest, adv c_lparen p).
Proof. intros. reflexivity. Qed.
Theorem lex_rparen : forall f rest p,
  lex_next (S f) (c_rparen :: rest) p = Ok (Some (TRParen, adv c_rparen p), rest, adv c_rparen p).
Proof. intros. reflexivity. Qed.
Theorem lex_quote : forall f rest p,
  lex_next (S f) (c_quote :: rest) p = Ok (Some (TQuote, adv c_quote p), rest, adv c_quote p).
Proof. intros. reflexivity. Qed.

(** an identifier: an initial character, subsequent characters, then a delimiter or the end of
    the input; the token ends exactly there *)
Definition plain_initial (c : char) : bool :=
  is_initial c && negb (is_ws c) && negb (c =? c_semi) && negb (c =? c_lparen) && negb (c =? c_rparen)
  && negb (c =? c_hash) && negb (c =? c_quote) && negb (c =? c_backquote) && negb (c =? c_comma)
  && negb (c =? c_dot) && negb (c =? c_plus) && negb (c =? c_minus) && negb (c =? c_dquote)
  && negb (is_digit c) && negb (c =? c_bar).

Theorem lex_identifier : forall f c cs rest p,
  plain_initial c = true -> forallb is_subsequent cs = true ->
  match rest with [] => True | d :: _ => is_delimiter d = true end ->
  lex_next (S f) (c :: cs ++ rest) p =
  Ok (Some (TIdent (c :: cs), adv_all (c :: cs) p), rest, adv_all (c :: cs) p).
Proof.
  intros f c cs rest p Hc Hcs Hr. unfold plain_initial in Hc.
  repeat (apply andb_true_iff in Hc as [Hc ?]).
  repeat match goal with H : negb _ = true |- _ => apply negb_true_iff in H end.
  rewrite lex_next_S. cbv zeta.
  repeat match goal with H : ?x = false |- context [if ?x then _ else _] => rewrite H end.
  assert (Hpm : (c =? c_plus) || (c =? c_minus) = false) by (apply orb_false_iff; auto).
  rewrite Hpm.
  repeat match goal with H : ?x = false |- context [if ?x then _ else _] => rewrite H end.
  unfold lex_normal_ident, ident_tail.
  assert (Hr' : match rest with [] => True | d :: _ => is_subsequent d = false end).
  { destruct rest as [|d rest]; [exact I|].
    unfold is_delimiter in Hr. unfold is_subsequent, is_initial, is_digit, is_ws in *.
    destruct (N.eq_dec d c_space) as [->|?]; [reflexivity|].
    destruct (N.eq_dec d c_tab) as [->|?]; [reflexivity|].
    destruct (N.eq_dec d c_nl) as [->|?]; [reflexivity|].
    destruct (N.eq_dec d c_cr) as [->|?]; [reflexivity|].
    destruct (N.eq_dec d c_lparen) as [->|?]; [reflexivity|].
    destruct (N.eq_dec d c_rparen) as [->|?]; [reflexivity|].
    destruct (N.eq_dec d c_dquote) as [->|?]; [reflexivity|].
    destruct (N.eq_dec d c_semi) as [->|?]; [reflexivity|].
    destruct (N.eq_dec d c_bar) as [->|?]; [reflexivity|].
    exfalso. repeat (apply orb_true_iff in Hr as [Hr|Hr]); apply N.eqb_eq in Hr; contradiction. }
  rewrite (take_while_all is_subsequent cs rest _ Hcs Hr'). unfold peek_delim, test_delimiter.
  destruct rest as [|d rest]; cbn [bind]; [reflexivity|]. rewrite Hr. reflexivity.
Qed.

(** ** totality: the lexer never runs out of its fuel and has no panic site *)

Definition no_panic {A} (r : res A) : Prop := forall s, r <> Panic s.
Definition no_fuel_out {A} (r : res A) : Prop := r <> OutOfFuel.
Definition fine {A} (r : res A) : Prop := no_panic r /\ no_fuel_out r.

Lemma fine_ok : forall {A} (a : A), fine (Ok a).
Proof. split; [intros s|]; discriminate. Qed.
Lemma fine_err : forall {A} k l, fine (@Err A k l).
Proof. split; [intros s|]; discriminate. Qed.
Lemma fine_bind : forall {A B} (r : res A) (k : A -> res B),
  fine r -> (forall a, fine (k a)) -> fine (bind r k).
Proof.
  intros A B [a|kk l|s|] k [H1 H2] K; cbn; auto using fine_err.
  - exfalso. now apply (H1 s).
  - exfalso. now apply H2.
Qed.
#[export] Hint Resolve fine_ok fine_err : fine.

Ltac fine_tac :=
  repeat first
    [ apply fine_ok | apply fine_err | progress unfold lerr, err, test_delimiter, peek_delim
    | match goal with
      | |- fine (if ?b then _ else _) => destruct b
      | |- fine (match ?x with _ => _ end) => destruct x
      | |- fine (let '(_, _) := ?x in _) => destruct x
      | |- fine (bind _ _) => apply fine_bind; [|intros]
      end ].

Lemma fine_number_suffix : forall lit l p, fine (number_suffix lit l p).
Proof. intros. unfold number_suffix. fine_tac. Qed.
Lemma fine_real_token : forall lit p, fine (real_token lit p).
Proof. intros. unfold real_token. fine_tac. Qed.
Lemma fine_real_tail : forall lit l p, fine (real_tail lit l p).
Proof. intros. unfold real_tail. fine_tac; apply fine_number_suffix. Qed.
Lemma fine_lex_number : forall c l p, fine (lex_number c l p).
Proof.
  intros. unfold lex_number. fine_tac; try apply fine_number_suffix; try apply fine_real_tail; try apply fine_real_token.
Qed.
Lemma fine_lex_normal_ident : forall c l p, fine (lex_normal_ident c l p).
Proof. intros. unfold lex_normal_ident, ident_tail. fine_tac. Qed.
Lemma fine_dot_subsequent : forall id l p, fine (dot_subsequent id l p).
Proof. intros. unfold dot_subsequent, ident_tail. fine_tac. Qed.
Lemma fine_lex_peculiar : forall c l p, fine (lex_peculiar c l p).
Proof. intros. unfold lex_peculiar. fine_tac. apply fine_dot_subsequent. Qed.
Lemma fine_lex_quoted_ident : forall l p acc, fine (lex_quoted_ident l p acc).
Proof. induction l as [|c l IH]; intros; cbn; fine_tac. apply IH. Qed.
Lemma fine_lex_string : forall fuel l p acc, (length l < fuel)%nat -> fine (lex_string fuel l p acc).
Proof.
  induction fuel as [|f IH]; intros l p acc Hf; [lia|]. cbn [lex_string].
  destruct l as [|c l]; [apply fine_err|].
  cbn [length] in Hf.
  destruct (c =? c_dquote); [apply fine_ok|].
  destruct (c =? c_backslash).
  - destruct l as [|ec l']; [apply fine_err|]. cbn [length] in Hf.
    repeat match goal with |- fine (if ?b then _ else _) => destruct b end;
      try apply fine_err; apply IH; cbn [length]; lia.
  - apply IH; cbn [length]; lia.
Qed.

Theorem lex_next_fine : forall n l fuel p, (length l <= n)%nat -> (length l < fuel)%nat -> fine (lex_next fuel l p).
Proof.
  induction n as [|n IH]; intros l fuel p Hn Hf.
  - destruct l; [|cbn in Hn; lia]. destruct fuel; [lia|]. apply fine_ok.
  - destruct fuel as [|f]; [lia|]. rewrite lex_next_S.
    destruct l as [|c r]; [apply fine_ok|]. cbn [length] in Hn, Hf. cbv zeta.
    destruct (is_ws c).
    { destruct (take_while is_ws r (adv c p)) as [[a r'] p'] eqn:ET.
      apply take_while_length in ET. apply IH; lia. }
    destruct (c =? c_semi).
    { destruct (take_while not_eol r (adv c p)) as [[a r'] p'] eqn:ET.
      apply take_while_length in ET. apply IH; lia. }
    fine_tac; try apply fine_lex_peculiar; try apply fine_lex_number; try apply fine_lex_normal_ident;
      try apply fine_lex_quoted_ident.
    apply fine_lex_string. lia.
Qed.

(** with the fuel the model hands it, the lexer always answers: a token, the end, or an error *)
Corollary lex_next_total : forall l p, fine (lex_next (lex_fuel l) l p).
Proof. intros. apply (lex_next_fine (length l)); unfold lex_fuel; lia. Qed.
