(** C17: running a program file (Model/Cli.v, eval_file / eval_loop / file_chars of Model/Interp.v). *)
From Coq Require Import ZArith NArith List Bool Lia.
From RV Require Import Model.Common Model.Datum Model.Lexer Model.Reader Model.Ast Model.Value Model.Eval
  Model.Interp Model.Cli Proofs.Basics.
Import ListNotations.

(** ** reading the file: line ends *)

Definition unlines_with (eol : list char) (ls : list (list char)) : list char :=
  flat_map (fun l => l ++ eol) ls.

(** a line of text: no line feed inside, and it does not end with a carriage return *)
Definition clean_line (l : list char) : bool :=
  forallb (fun c => negb (N.eqb c 10)) l && match rev l with c :: _ => negb (N.eqb c 13) | [] => true end.

Lemma file_lines_line : forall (l rest cur : list char),
  forallb (fun c => negb (N.eqb c 10)) l = true ->
  file_lines (l ++ 10%N :: rest) cur =
  (match rev l ++ cur with
   | x :: cur' => if N.eqb x 13 then rev cur' else rev (rev l ++ cur)
   | [] => []
   end) :: file_lines rest [].
Proof.
  induction l as [|c l IH]; intros rest cur H.
  - cbn. destruct cur; reflexivity.
  - cbn in H. apply andb_true_iff in H as [Hc H]. apply negb_true_iff in Hc.
    cbn [app file_lines]. rewrite Hc. etransitivity; [exact (IH rest (c :: cur) H)|].
    cbn [rev]. rewrite <- app_assoc. reflexivity.
Qed.

Lemma strip_clean : forall (l : list char), clean_line l = true ->
  match rev l ++ (@nil char) with
  | x :: cur' => if N.eqb x 13 then rev cur' else rev (rev l ++ (@nil char))
  | [] => []
  end = l.
Proof.
  intros l H. unfold clean_line in H. apply andb_true_iff in H as [_ H]. rewrite app_nil_r.
  destruct (rev l) as [|x r] eqn:E.
  - destruct l; [reflexivity|]. apply (f_equal (@length _)) in E. rewrite rev_length in E. discriminate.
  - apply negb_true_iff in H. rewrite H. rewrite <- E. apply rev_involutive.
Qed.

Lemma strip_cr : forall (l : list char), clean_line l = true ->
  match rev (l ++ [13%N]) ++ (@nil char) with
  | x :: cur' => if N.eqb x 13 then rev cur' else rev (rev (l ++ [13%N]) ++ (@nil char))
  | [] => []
  end = l.
Proof. intros l H. rewrite rev_app_distr. cbn. rewrite app_nil_r. apply rev_involutive. Qed.

Lemma clean_no_lf : forall l, clean_line l = true -> forallb (fun c => negb (N.eqb c 10)) l = true.
Proof. intros l H. unfold clean_line in H. now apply andb_true_iff in H as [H _]. Qed.

(** a file whose lines end with LF reads as itself *)
Theorem file_chars_lf : forall ls, forallb clean_line ls = true ->
  file_chars (unlines_with [10%N] ls) = unlines_with [10%N] ls.
Proof.
  unfold file_chars. induction ls as [|l ls IH]; intros H; [reflexivity|].
  cbn in H. apply andb_true_iff in H as [Hl H].
  cbn [unlines_with flat_map]. rewrite <- app_assoc. cbn [app].
  rewrite (file_lines_line l _ [] (clean_no_lf l Hl)). rewrite (strip_clean l Hl).
  cbn [flat_map]. fold (unlines_with [10%N] ls). rewrite <- app_assoc. cbn [app]. f_equal. f_equal. now apply IH.
Qed.

(** the same file with CR LF line ends reads as the LF file: the outcome cannot depend on the
    line-end convention *)
Theorem file_chars_crlf : forall ls, forallb clean_line ls = true ->
  file_chars (unlines_with [13%N; 10%N] ls) = unlines_with [10%N] ls.
Proof.
  unfold file_chars. induction ls as [|l ls IH]; intros H; [reflexivity|].
  cbn in H. apply andb_true_iff in H as [Hl H].
  cbn [unlines_with flat_map]. rewrite <- app_assoc.
  change (l ++ [13%N; 10%N] ++ flat_map (fun l0 => l0 ++ [13%N; 10%N]) ls)
    with (l ++ [13%N] ++ 10%N :: flat_map (fun l0 => l0 ++ [13%N; 10%N]) ls).
  rewrite app_assoc.
  assert (Hn : forallb (fun c => negb (N.eqb c 10)) (l ++ [13%N]) = true)
    by (rewrite forallb_app; apply andb_true_iff; split; [exact (clean_no_lf l Hl)|reflexivity]).
  rewrite (file_lines_line (l ++ [13%N]) _ [] Hn). rewrite (strip_cr l Hl).
  cbn [flat_map]. f_equal. now apply IH.
Qed.

(** a missing final newline is supplied *)
Lemma file_lines_last : forall (l cur : list char), forallb (fun c => negb (N.eqb c 10)) l = true ->
  file_lines l cur = match rev l ++ cur with [] => [] | _ => [rev (rev l ++ cur)] end.
Proof.
  induction l as [|c l IH]; intros cur H; [reflexivity|].
  cbn in H. apply andb_true_iff in H as [Hc H]. apply negb_true_iff in Hc.
  cbn [file_lines]. rewrite Hc. etransitivity; [exact (IH (c :: cur) H)|]. cbn [rev]. now rewrite <- app_assoc.
Qed.

Theorem file_chars_no_final_newline : forall ls last, forallb clean_line ls = true ->
  forallb (fun c => negb (N.eqb c 10)) last = true -> last <> [] ->
  file_chars (unlines_with [10%N] ls ++ last) = unlines_with [10%N] (ls ++ [last]).
Proof.
  unfold file_chars. induction ls as [|l ls IH]; intros last H Hl Hne.
  - cbn [unlines_with flat_map app]. rewrite (file_lines_last last [] Hl). rewrite app_nil_r.
    rewrite rev_involutive. unfold char in *.
    destruct (rev last) as [|x r] eqn:E; [|clear E].
    + exfalso. apply Hne. destruct last; [reflexivity|]. apply (f_equal (@length _)) in E. rewrite rev_length in E. discriminate.
    + cbn. reflexivity.
  - cbn in H. apply andb_true_iff in H as [Hc H].
    cbn [unlines_with flat_map app]. rewrite <- !app_assoc. cbn [app].
    rewrite (file_lines_line l _ [] (clean_no_lf l Hc)). rewrite (strip_clean l Hc).
    cbn [flat_map]. rewrite <- app_assoc. cbn [app]. f_equal. f_equal.
    fold (unlines_with [10%N] ls). fold (unlines_with [10%N] (ls ++ [last])). now apply IH.
Qed.

(** ** the forms are evaluated in order and the run stops at the first failing one *)

Definition is_ok {A} (r : res A) : bool := match r with Ok _ => true | _ => false end.

Theorem eval_loop_trace : forall fs cwd fuel efuel s last c tr r c' tr',
  eval_loop fs cwd fuel efuel s last c tr = ((r, c'), tr') -> r <> OutOfFuel ->
  exists more, tr' = tr ++ more /\
    ((is_ok r = true /\ forallb is_ok more = true) \/
     (is_ok r = false /\ exists oks, more = oks ++ [r] /\ forallb is_ok oks = true)).
Proof.
  induction fuel as [|f IH]; intros efuel s last c tr r c' tr' H N; cbn [eval_loop] in H.
  - injection H as <- <- <-. now elim N.
  - destruct (parse_next c s) as [[[[stm|] s1]|k l|x|] c1].
    + destruct (eval_ast fs cwd efuel stm (i_env (c_inst c1)) c1) as [[v|k l|x|] c2].
      * destruct (IH _ _ _ _ _ _ _ _ H N) as [more [E D]]. exists (Ok v :: more).
        split; [rewrite E, <- app_assoc; reflexivity|].
        destruct D as [[D1 D2]|[D1 [oks [D2 D3]]]].
        -- left. split; [exact D1|]. cbn. exact D2.
        -- right. split; [exact D1|]. exists (Ok v :: oks). split; [now rewrite D2|exact D3].
      * injection H as <- <- <-. exists [Err k l]. split; [reflexivity|]. right. split; [reflexivity|]. now exists [].
      * injection H as <- <- <-. exists [Panic x]. split; [reflexivity|]. right. split; [reflexivity|]. now exists [].
      * injection H as <- <- <-. now elim N.
    + injection H as <- <- <-. exists []. split; [now rewrite app_nil_r|]. left. split; reflexivity.
    + injection H as <- <- <-. exists [Err k l]. split; [reflexivity|]. right. split; [reflexivity|]. now exists [].
    + injection H as <- <- <-. exists [Panic x]. split; [reflexivity|]. right. split; [reflexivity|]. now exists [].
    + injection H as <- <- <-. now elim N.
Qed.

(** exit status 0 exactly when every form succeeded; otherwise one diagnostic, carrying the kind
    and location of the first failing form, and a non-zero status *)
Theorem status_zero_iff : forall fs cwd efuel dir file c rr trace,
  run_program fs cwd efuel dir file c = (rr, trace) ->
  (rr_status rr = 0%Z <-> rr_diag rr = None /\ exists v, fst (fst (eval_file fs cwd efuel dir file c)) = Ok v) /\
  (forall k l, rr_diag rr = Some (k, l) <-> fst (fst (eval_file fs cwd efuel dir file c)) = Err k l) /\
  (forall k l, rr_diag rr = Some (k, l) -> rr_status rr = 255%Z).
Proof.
  intros fs cwd efuel dir file c rr trace H. unfold run_program in H.
  destruct (eval_file fs cwd efuel dir file c) as [[r c'] tr]. cbn [fst].
  destruct r as [v|k l|x|]; injection H as <- <-; cbn; repeat split; intros;
    try discriminate; try (destruct H as [_ [v' H]]; discriminate); eauto; try congruence.
Qed.

(** running a file is evaluating its text (with normalised line ends) on a fresh interpreter *)
Theorem run_file_is_eval : forall fs cwd efuel dir file c text,
  fs_get fs (dir, file) = Some (FFile text) ->
  eval_file fs cwd efuel dir file c =
  eval_text fs cwd efuel (file_chars text) (with_inst c (set_progdir (c_inst c) (Some dir))).
Proof. intros. unfold eval_file, read_file. now rewrite H. Qed.

(** a missing or unreadable file is a diagnostic (an I/O error) and a non-zero status *)
Theorem unreadable_file : forall fs cwd efuel dir file c,
  (fs_get fs (dir, file) = None \/ fs_get fs (dir, file) = Some FBadUtf8 \/ fs_get fs (dir, file) = Some FDir) ->
  fst (run_program fs cwd efuel dir file c) =
  {| rr_stdout := out (c_st c); rr_status := 255; rr_diag := Some (IOError, None) |}.
Proof.
  intros fs cwd efuel dir file c H. unfold run_program, eval_file, read_file.
  destruct H as [H|[H|H]]; rewrite H; reflexivity.
Qed.
