(** C07: the evaluator never reaches one of the panic sites of the Rust code. The sites are explicit
    outcomes [Panic site] of the model (Model/Common.v); [PUnmodelled] is the model's own limit
    (transcendental functions, vectors longer than 10^6, dangling addresses that Rc rules out), all the
    others are `unwrap()` / `unreachable!()` of the Rust source. Invariant: every procedure body - in the
    expression and in every closure the store holds - is non-empty ([nbe], [vnb], [snb]); the transformer
    establishes it (LambdaBodyNoExpression), evaluation keeps it, and under it no [Panic] other than
    [PUnmodelled] can come out of the evaluator, for any fuel. *)
From Coq Require Import ZArith NArith List Bool Lia PeanoNat.
From RV Require Import Model.Common Model.Real32 Model.Num Model.Datum Model.Lexer Model.Macro Model.Ast
  Model.Value Model.Print Model.Builtins Model.Eval Spec.EvalSpec Proofs.Basics Proofs.StoreProofs Proofs.EvalProofs
  Proofs.RegionProofs Proofs.NoPanicProofs Proofs.LocInvProofs.
Import ListNotations.

Inductive nbe : expr -> Prop :=
  | nbe_sym : forall x l, nbe (ESym x l)
  | nbe_prim : forall p l, nbe (EPrim p l)
  | nbe_set : forall x e l, nbe e -> nbe (ESet x e l)
  | nbe_lambda : forall fm defs body l,
      body <> [] -> Forall (fun d => nbe (snd (fst d))) defs -> Forall nbe body -> nbe (ELambda fm defs body l)
  | nbe_call : forall f args l, nbe f -> Forall nbe args -> nbe (ECall f args l)
  | nbe_if : forall c t e l, nbe c -> nbe t -> (forall a, e = Some a -> nbe a) -> nbe (EIf c t e l)
  | nbe_quote : forall d l, nbe (EQuote d l)
  | nbe_datum : forall d l, nbe (EDatum d l).

Fixpoint vnb (v : value) : Prop :=
  match v with
  | VProcU _ defs body _ => body <> [] /\ Forall (fun d => nbe (snd (fst d))) defs /\ Forall nbe body
  | VPair a b => vnb a /\ vnb b
  | _ => True
  end.

Definition snb (st : state) : Prop :=
  Forall (fun fr => Forall (fun d => vnb (snd d)) (f_defs fr)) (frames st) /\
  Forall (Forall vnb) (vectors st).

(** no panic site of the Rust code *)
Definition quiet {A} (r : res A) : Prop := forall x, r = Panic x -> x = PUnmodelled.

Lemma quiet_refail : forall {A B} (r : res A), quiet r -> quiet (@refail A B r).
Proof. intros A B [a|k l|x|] H y E; cbn in E; try discriminate; injection E as <-; [reflexivity|now apply H]. Qed.
Lemma quiet_ok : forall {A} (a : A), quiet (Ok a).
Proof. intros A a x E; discriminate. Qed.
Lemma quiet_err : forall {A} k l, quiet (@Err A k l).
Proof. intros A k l x E; discriminate. Qed.

Lemma env_get_fuel_nb : forall fuel st a x v, snb st -> env_get_fuel fuel (frames st) a x = Some v -> vnb v.
Proof.
  induction fuel as [|f IH]; intros st a x v Hs E; cbn in E; [discriminate|].
  destruct (nth_error (frames st) a) as [fr|] eqn:EF; [|discriminate].
  destruct (alist_get (f_defs fr) x) as [w|] eqn:G.
  - injection E as <-. destruct Hs as [H _]. rewrite Forall_forall in H.
    specialize (H fr (nth_error_In _ _ EF)). eapply (alist_get_Forall vnb); eassumption.
  - destruct (f_parent fr); [eapply IH; eassumption|discriminate].
Qed.

Lemma env_define_nb : forall st a x v, snb st -> vnb v -> snb (env_define st a x v).
Proof.
  intros st a x v [H1 H2] Hv. unfold env_define. destruct (nth_error (frames st) a) as [fr|] eqn:E; [|now split].
  split; cbn; [|exact H2]. apply Forall_update_list; [exact H1|]. cbn.
  apply (alist_set_Forall vnb); [|exact Hv]. rewrite Forall_forall in H1. exact (H1 fr (nth_error_In _ _ E)).
Qed.

Lemma env_set_nb : forall st a x v st', snb st -> vnb v -> env_set st a x v = Some st' -> snb st'.
Proof.
  intros st a x v st' Hs Hv E. unfold env_set in E. destruct (defining_frame st a x); [|discriminate].
  injection E as <-. now apply env_define_nb.
Qed.

Lemma alloc_frame_nb : forall st p, snb st -> snb (snd (alloc_frame st p)).
Proof.
  intros st p [H1 H2]. split; cbn; [|exact H2]. apply Forall_app. split; [exact H1|]. constructor; [constructor|constructor].
Qed.

Lemma bind_fixed_nb : forall names st env args rest st', snb st -> Forall vnb args ->
  bind_fixed st env names args = Ok (rest, st') -> snb st' /\ Forall vnb rest.
Proof.
  induction names as [|x xs IH]; intros st env args rest st' Hs Ha E; cbn in E.
  - injection E as <- <-. now split.
  - destruct args as [|v vs]; [discriminate|]. inversion Ha; subst.
    eapply IH; [apply env_define_nb; eassumption|eassumption|exact E].
Qed.

Lemma vnb_vlist : forall l, Forall vnb l -> vnb (vlist l).
Proof. intros l H. induction H; cbn; auto. Qed.

Lemma vnb_vitems : forall v, vnb v -> Forall vnb (vitems v).
Proof.
  induction v; cbn; intros H; try constructor.
  destruct H as [H1 H2]. destruct v2; try (constructor; [exact H1|constructor; [exact H2|constructor]]).
  - constructor; [exact H1|]. now apply IHv2.
  - constructor; [exact H1|constructor].
Qed.

Lemma alloc_vector_nb : forall st cells, snb st -> Forall vnb cells -> snb (snd (alloc_vector st cells)).
Proof.
  intros st cells [H1 H2] Hc. split; cbn; [exact H1|]. apply Forall_app. split; [exact H2|]. constructor; [exact Hc|constructor].
Qed.

Lemma snb_same_store : forall st st', snb st -> frames st' = frames st -> vectors st' = vectors st -> snb st'.
Proof. intros st st' [H1 H2] E1 E2. split; [rewrite E1|rewrite E2]; assumption. Qed.

Lemma quiet_eval_primitive : forall p, quiet (eval_primitive p).
Proof.
  intros p x E. destruct p as [y|c|b|z|n1 n2|lit]; cbn in E; try discriminate.
  unfold eval_real_literal in E. destruct (real_parts lit) as [[[[? ?] ?] ?]|]; cbn in E; [discriminate|].
  now injection E as <-.
Qed.

Lemma vnb_eval_primitive : forall p v, eval_primitive p = Ok v -> vnb v.
Proof.
  intros p v E. destruct p as [x|c|b|z|n1 n2|lit]; cbn in E; try (injection E as <-; exact I).
  destruct (eval_real_literal lit) as [n| | |]; cbn in E; try discriminate. injection E as <-. exact I.
Qed.

Definition lit_nb (d : datum) : Prop := forall st r st', snb st -> read_literal d st = (r, st') ->
  snb st' /\ (forall v, r = Ok v -> vnb v) /\ quiet r.

Lemma read_literal_nb : forall d, lit_nb d.
Proof.
  induction d as [p l|s l|l|a b l IHa IHb|v l IHv] using datum_rect'; intros st r st' Hs H; cbn in H.
  - injection H as <- <-. split; [exact Hs|]. split; [apply vnb_eval_primitive|apply quiet_eval_primitive].
  - injection H as <- <-. split; [exact Hs|]. split; [intros v E; injection E as <-; exact I|apply quiet_ok].
  - injection H as <- <-. split; [exact Hs|]. split; [intros v E; injection E as <-; exact I|apply quiet_ok].
  - destruct (read_literal a st) as [ra st1] eqn:Ea. destruct (IHa _ _ _ Hs Ea) as [S1 [R1 E1]].
    destruct ra as [va|k ll|s|]; cbn in H;
      try (injection H as <- <-; split; [exact S1|]; split; [intros v E; discriminate|]; intros y E; try discriminate;
           injection E as <-; now apply E1).
    destruct (read_literal b st1) as [rb st2] eqn:Eb. destruct (IHb _ _ _ S1 Eb) as [S2 [R2 E2]].
    destruct rb as [vb|k ll|s|]; cbn in H; injection H as <- <-; (split; [exact S2|]); split;
      try (intros v E; discriminate); try (intros y E; discriminate).
    + intros v E. injection E as <-. cbn. split; [now apply R1|now apply R2].
    + intros y E. injection E as <-. now apply E2.
  - match type of H with
    | ebind (?elems v st) _ = _ =>
        assert (G : forall v, Forall lit_nb v ->
                   forall st r st', snb st -> elems v st = (r, st') ->
                   snb st' /\ (forall vs, r = Ok vs -> Forall vnb vs) /\ quiet r)
    end.
    { clear. induction v as [|x xs IH]; intros HF st r st' Hs H.
      - injection H as <- <-. split; [exact Hs|]. split; [intros vs E; injection E as <-; constructor|apply quiet_ok].
      - inversion HF as [|? ? Hx Hxs]; subst. simpl in H.
        destruct (read_literal x st) as [rx st1] eqn:Ex. destruct (Hx _ _ _ Hs Ex) as [S1 [R1 E1]].
        destruct rx as [vx|k ll|s|]; cbn in H;
          try (injection H as <- <-; split; [exact S1|]; split; [intros vs E; discriminate|]; intros y E; try discriminate;
               injection E as <-; now apply E1).
        match type of H with ebind (?e xs st1) _ = _ => destruct (e xs st1) as [rr st2] eqn:Er end.
        destruct (IH Hxs _ _ _ S1 Er) as [S2 [R2 E2]].
        destruct rr as [vr|k ll|s|]; cbn in H; injection H as <- <-; (split; [exact S2|]); split;
          try (intros vs E; discriminate); try (intros y E; discriminate).
        + intros vs E. injection E as <-. constructor; [now apply R1|now apply R2].
        + intros y E. injection E as <-. now apply E2. }
    match type of H with ebind (?elems v st) _ = _ => destruct (elems v st) as [rc st1] eqn:Ec end.
    destruct (G v IHv _ _ _ Hs Ec) as [S1 [R1 E1]].
    destruct rc as [cells|k ll|s|]; cbn in H;
      try (injection H as <- <-; split; [exact S1|]; split; [intros w E; discriminate|]; intros y E; try discriminate;
           injection E as <-; now apply E1).
    unfold alloc_vector in H. injection H as <- <-. split.
    + exact (alloc_vector_nb st1 cells S1 (R1 _ eq_refl)).
    + split; [intros w E; injection E as <-; exact I|apply quiet_ok].
Qed.

(** ** the native procedures: the only sites are a missing argument and the model's limit *)
Definition psafe {A} (r : res A) : Prop := forall x, r = Panic x -> x = PBuiltinArg \/ x = PUnmodelled.
Lemma psafe_ok : forall {A} (a : A), psafe (Ok a).
Proof. intros A a x E; discriminate. Qed.
Lemma psafe_err : forall {A} k l, psafe (@Err A k l).
Proof. intros A k l x E; discriminate. Qed.
Lemma psafe_arg : forall {A}, psafe (@Panic A PBuiltinArg).
Proof. intros A x E. injection E as <-. now left. Qed.
Lemma psafe_unm : forall {A}, psafe (@Panic A PUnmodelled).
Proof. intros A x E. injection E as <-. now right. Qed.
Lemma psafe_oof : forall {A}, psafe (@OutOfFuel A).
Proof. intros A x E; discriminate. Qed.
Lemma psafe_bind : forall {A B} (r : res A) (k : A -> res B), psafe r -> (forall a, psafe (k a)) -> psafe (bind r k).
Proof.
  intros A B [a|kk l|x|] k H K; cbn; auto using psafe_err, psafe_oof.
  intros y E. injection E as <-. now apply H.
Qed.

Ltac psafe_tac :=
  repeat first
    [ apply psafe_ok | apply psafe_err | apply psafe_arg | apply psafe_unm | apply psafe_oof
    | progress unfold lerr, err, type_err, okf, test1, num1, unmodelled1, unmodelled2, arg1, arg2, arg3,
        expect_number, expect_integer, expect_boolean, num_div, num_floor_quotient, num_floor_remainder, num_exact
    | match goal with
      | |- psafe (if ?b then _ else _) => destruct b
      | |- psafe (match ?x with _ => _ end) => destruct x
      | |- psafe (let '(_, _) := ?x in _) => destruct x
      | |- psafe (bind _ _) => apply psafe_bind; [|intros]
      end ].

Lemma psafe_fold_num : forall f args acc, (forall a b, psafe (f a b)) -> psafe (fold_num f acc args).
Proof.
  intros f args. induction args as [|v r IH]; intros acc Hf; cbn [fold_num]; [apply psafe_ok|].
  apply psafe_bind; [psafe_tac|]. intros n. apply psafe_bind; [apply Hf|]. intros a. now apply IH.
Qed.
Lemma psafe_cmp_chain : forall op args last acc, psafe (cmp_chain op last args acc).
Proof.
  intros op args. induction args as [|v r IH]; intros last acc; cbn [cmp_chain]; [apply psafe_ok|].
  apply psafe_bind; [psafe_tac|]. intros n. apply IH.
Qed.
Lemma psafe_bool_chain : forall args last acc, psafe (bool_chain last args acc).
Proof.
  induction args as [|v r IH]; intros last acc; cbn [bool_chain]; [apply psafe_ok|].
  apply psafe_bind; [psafe_tac|]. intros n. apply IH.
Qed.
Lemma psafe_num_div : forall a b, psafe (num_div a b).
Proof. intros. psafe_tac. Qed.
Lemma psafe_num_compare : forall op args, psafe (num_compare op args).
Proof.
  intros op args. unfold num_compare. destruct args as [|v r]; [apply psafe_ok|].
  apply psafe_bind; [psafe_tac|]. intros n. apply psafe_bind; [apply psafe_cmp_chain|]. intros; apply psafe_ok.
Qed.

Lemma builtin_panic_sites : forall name args st r st', builtin_call name args st = (r, st') -> psafe r.
Proof.
  intros name args st r st' H. unfold builtin_call in H.
  repeat match type of H with
  | (if ?b then _ else _) = _ => destruct b
  end.
  all: try (injection H as <- <-;
            first [ apply psafe_num_compare
                  | repeat (first [ apply psafe_ok | apply psafe_err | apply psafe_unm
                                  | apply psafe_bind; [|intros]
                                  | apply psafe_fold_num; intros
                                  | apply psafe_bool_chain
                                  | apply psafe_num_div
                                  | progress psafe_tac ]) ]; fail).
  - (* display *)
    unfold arg1 in H. destruct args as [|v0 rest]; [injection H as <- <-; apply psafe_arg|].
    destruct (display display_fuel st v0); injection H as <- <-; [apply psafe_ok|apply psafe_unm].
  - (* make-vector *)
    assert (U : psafe (do p <- arg2 args;; let '(kv, fill) := p in do k <- expect_integer kv;; Ok (k, fill))) by psafe_tac.
    destruct (do p <- arg2 args;; let '(kv, fill) := p in do k <- expect_integer kv;; Ok (k, fill)) as [[k fill]|k l|x|].
    + destruct (k <? 0)%Z; [injection H as <- <-; apply psafe_err|].
      destruct (1000000 <? k)%Z; [injection H as <- <-; apply psafe_unm|].
      unfold alloc_vector in H. injection H as <- <-. apply psafe_ok.
    + injection H as <- <-. apply psafe_err.
    + injection H as <- <-. intros y E. injection E as <-. now apply U.
    + injection H as <- <-. apply psafe_oof.
  - (* vector-set! *)
    unfold arg3 in H. destruct args as [|a1 [|a2 [|a3 rest]]]; try (injection H as <- <-; apply psafe_arg).
    destruct a1; try (injection H as <- <-; psafe_tac).
    unfold expect_integer, type_err, err in H. destruct a2 as [n| | | | | | | | | | |]; try (injection H as <- <-; psafe_tac).
    destruct n; try (injection H as <- <-; psafe_tac).
    destruct (negb mutable); [injection H as <- <-; psafe_tac|].
    destruct (nth_error (vectors st) addr); [|injection H as <- <-; psafe_tac].
    destruct ((z <? 0)%Z || (Z.of_nat (length l) <=? z)%Z); injection H as <- <-; psafe_tac.
  - (* tick *)
    unfold arg2 in H. destruct args as [|a1 [|a2 rest]]; try (injection H as <- <-; apply psafe_arg).
    destruct a1 as [n| | | | | | | | | | |]; try (injection H as <- <-; psafe_tac).
    destruct n; injection H as <- <-; psafe_tac.
Qed.

Lemma builtin_call_nb : forall name args st r st', snb st -> Forall vnb args ->
  builtin_call name args st = (r, st') -> snb st' /\ (forall v, r = Ok v -> vnb v).
Proof.
  intros name args st r st' Hs Ha H. unfold builtin_call in H.
  repeat match type of H with
  | (if ?b then _ else _) = _ => destruct b
  end.
  all: try (injection H as <- <-; split; [exact Hs|]; intros v E;
            unfold test1, num1, unmodelled1, unmodelled2, num_compare, arg1, arg2, arg3, type_err, err, expect_number,
              expect_integer, expect_boolean in *;
            peel E; peel_ctx; try discriminate; inv_args; cbn in *; tauto).
  - (* display *)
    destruct (arg1 args) as [v0|k l|x|]; try (injection H as <- <-; split; [exact Hs|intros v E; discriminate]).
    destruct (display display_fuel st v0); injection H as <- <-.
    + split; [now apply (snb_same_store st)|]. intros v E. injection E as <-. exact I.
    + split; [exact Hs|intros v E; discriminate].
  - (* vector *)
    unfold alloc_vector in H. injection H as <- <-. split; [exact (alloc_vector_nb st args Hs Ha)|].
    intros v E. injection E as <-. exact I.
  - (* make-vector *)
    destruct (do p <- arg2 args;; let '(kv, fill) := p in do k <- expect_integer kv;; Ok (k, fill)) as [[k fill]|k l|x|] eqn:EA;
      try (injection H as <- <-; split; [exact Hs|intros v E; discriminate]).
    destruct (k <? 0)%Z; [injection H as <- <-; split; [exact Hs|intros v E; discriminate]|].
    destruct (1000000 <? k)%Z; [injection H as <- <-; split; [exact Hs|intros v E; discriminate]|].
    assert (Hf : vnb fill).
    { unfold arg2, expect_integer, type_err, err in EA. peel EA. peel_ctx. inv_args. cbn in *. tauto. }
    unfold alloc_vector in H. injection H as <- <-.
    split; [exact (alloc_vector_nb st _ Hs (Forall_repeat' vnb fill _ Hf))|]. intros v E. injection E as <-. exact I.
  - (* vector-ref *)
    injection H as <- <-. split; [exact Hs|]. intros v E.
    unfold arg2, expect_integer, type_err, err in E. peel E. peel_ctx. inv_args. cbn in *.
    match goal with
    | Hn : nth_error (vectors st) ?a = Some ?cells, Hk : nth_error ?cells _ = Some ?x |- _ =>
        destruct Hs as [_ HV]; rewrite Forall_forall in HV; specialize (HV cells (nth_error_In _ _ Hn));
        rewrite Forall_forall in HV; apply HV; eapply nth_error_In; exact Hk
    end.
  - (* vector-set! *)
    destruct (arg3 args) as [[[v0 kv] obj]|k l|x|] eqn:EA;
      try (injection H as <- <-; split; [exact Hs|intros v E; discriminate]).
    assert (Hobj : vnb obj).
    { unfold arg3 in EA. destruct args as [|a1 [|a2 [|a3 rest]]]; try discriminate. injection EA as <- <- <-. inv_args. tauto. }
    destruct v0; try (injection H as <- <-; split; [exact Hs|intros v E; discriminate]).
    destruct (expect_integer kv) as [k|k l|x|];
      try (injection H as <- <-; split; [exact Hs|intros v E; discriminate]).
    destruct (negb mutable); [injection H as <- <-; split; [exact Hs|intros v E; discriminate]|].
    destruct (nth_error (vectors st) addr) as [cells|] eqn:EN;
      [|injection H as <- <-; split; [exact Hs|intros v E; discriminate]].
    destruct ((k <? 0)%Z || (Z.of_nat (length cells) <=? k)%Z);
      [injection H as <- <-; split; [exact Hs|intros v E; discriminate]|].
    injection H as <- <-. split; [|intros v E; injection E as <-; exact I].
    destruct Hs as [H1 H2]. split; cbn; [exact H1|]. apply Forall_update_list; [exact H2|].
    apply Forall_update_list; [|exact Hobj]. rewrite Forall_forall in H2. exact (H2 cells (nth_error_In _ _ EN)).
  - (* tick *)
    destruct (arg2 args) as [[v1 v2]|k l|x|] eqn:EA;
      try (injection H as <- <-; split; [exact Hs|intros v E; discriminate]).
    assert (Hv2 : vnb v2).
    { unfold arg2 in EA. destruct args as [|a1 [|a2 rest]]; try discriminate. injection EA as <- <-. inv_args. tauto. }
    destruct v1 as [n| | | | | | | | | | |];
      try (injection H as <- <-; split; [exact Hs|intros v E; discriminate]).
    destruct n; try (injection H as <- <-; split; [exact Hs|intros v E; discriminate]).
    injection H as <- <-. split; [now apply (snb_same_store st)|]. intros v E. injection E as <-. exact Hv2.
Qed.

(** ** the evaluation judgements *)

Definition N_val (r : res value) (st' : state) : Prop :=
  snb st' /\ (forall v, r = Ok v -> vnb v) /\ quiet r.

Definition N_ev (st : state) (env : nat) (e : expr) (r : res value) (st' : state) : Prop :=
  snb st -> nbe e -> N_val r st'.
Definition N_evs (st : state) (env : nat) (es : list expr) (r : res (list value)) (st' : state) : Prop :=
  snb st -> Forall nbe es -> snb st' /\ (forall vs, r = Ok vs -> Forall vnb vs) /\ quiet r.
Definition N_app (st : state) (p : value) (args : list value) (r : res value) (st' : state) : Prop :=
  snb st -> vnb p -> Forall vnb args -> N_val r st'.
Definition N_evproc (st : state) (fm : formals) (defs : list (str * expr * loc)) (body : list expr) (closure : nat)
  (args : list value) (r : res value) (st' : state) : Prop :=
  snb st -> length (f_fixed fm) <= length args -> body <> [] ->
  Forall (fun d => nbe (snd (fst d))) defs -> Forall nbe body -> Forall vnb args -> N_val r st'.
Definition N_evdefs (st : state) (env : nat) (defs : list (str * expr * loc)) (r : res unit) (st' : state) : Prop :=
  snb st -> Forall (fun d => nbe (snd (fst d))) defs -> snb st' /\ quiet r.
Definition N_evbody (st : state) (env : nat) (body : list expr) (r : res value) (st' : state) : Prop :=
  snb st -> body <> [] -> Forall nbe body -> N_val r st'.

Ltac nfail S E :=
  split; [exact S|]; split; [intros w Ew; exfalso; eapply refail_Ok_False; eassumption|apply quiet_refail; exact E].

Theorem no_panic_all :
  (forall st env e r st', ev st env e r st' -> N_ev st env e r st') /\
  (forall st env es r st', evs st env es r st' -> N_evs st env es r st') /\
  (forall st p args r st', app st p args r st' -> N_app st p args r st') /\
  (forall st fm defs body closure args r st',
      evproc st fm defs body closure args r st' -> N_evproc st fm defs body closure args r st') /\
  (forall st env defs r st', evdefs st env defs r st' -> N_evdefs st env defs r st') /\
  (forall st env body r st', evbody st env body r st' -> N_evbody st env body r st').
Proof.
  apply ev_mutind.
  - (* ev_prim *)
    intros st env p l Hs He. split; [exact Hs|]. split; [apply vnb_eval_primitive|apply quiet_eval_primitive].
  - (* ev_datum *) intros st env d l r st' H Hs He. exact (read_literal_nb d st r st' Hs H).
  - (* ev_quote *) intros st env d l r st' H Hs He. exact (read_literal_nb d st r st' Hs H).
  - (* ev_sym *)
    intros st env x l v H Hs He. split; [exact Hs|]. split; [|apply quiet_ok].
    intros w E. injection E as <-. eapply env_get_fuel_nb; eassumption.
  - (* ev_sym_unbound *)
    intros st env x l H Hs He. split; [exact Hs|]. split; [intros w E; discriminate|apply quiet_err].
  - (* ev_lambda *)
    intros st env fm defs body l Hs He. split; [exact Hs|]. split; [|apply quiet_ok].
    intros w E. injection E as <-. inversion He; subst. cbn. auto.
  - (* ev_set *)
    intros st env x e l v st1 st2 _ IH Hset Hs He. inversion He; subst.
    destruct (IH Hs ltac:(assumption)) as [S1 [R1 E1]].
    split; [eapply env_set_nb; [exact S1|exact (R1 v eq_refl)|exact Hset]|].
    split; [intros w E; injection E as <-; exact I|apply quiet_ok].
  - (* ev_set_unbound *)
    intros st env x e l v st1 _ IH Hset Hs He. inversion He; subst.
    destruct (IH Hs ltac:(assumption)) as [S1 [R1 E1]].
    split; [exact S1|]. split; [intros w E; discriminate|apply quiet_err].
  - (* ev_set_fail *)
    intros st env x e l r st1 _ IH Fr Hs He. inversion He; subst.
    destruct (IH Hs ltac:(assumption)) as [S1 [R1 E1]]. nfail S1 E1.
  - (* ev_if_true *)
    intros st env c t alt l cv st1 r st2 _ IHc Ht _ IHt Hs He. inversion He; subst.
    destruct (IHc Hs ltac:(assumption)) as [S1 _]. exact (IHt S1 ltac:(assumption)).
  - (* ev_if_false *)
    intros st env c t a l cv st1 r st2 _ IHc Ht _ IHt Hs He. inversion He; subst.
    destruct (IHc Hs ltac:(assumption)) as [S1 _]. apply (IHt S1). auto.
  - (* ev_if_false_none *)
    intros st env c t l cv st1 _ IHc Ht Hs He. inversion He; subst.
    destruct (IHc Hs ltac:(assumption)) as [S1 _].
    split; [exact S1|]. split; [intros w E; injection E as <-; exact I|apply quiet_ok].
  - (* ev_if_fail *)
    intros st env c t alt l r st1 _ IH Fr Hs He. inversion He; subst.
    destruct (IH Hs ltac:(assumption)) as [S1 [R1 E1]]. nfail S1 E1.
  - (* ev_call *)
    intros st env fe args l fv st1 vs st2 r st3 _ IHf _ IHa Hp _ IHapp Hs He. inversion He; subst.
    destruct (IHf Hs ltac:(assumption)) as [S1 [R1 _]].
    destruct (IHa S1 ltac:(assumption)) as [S2 [R2 _]].
    exact (IHapp S2 (R1 fv eq_refl) (R2 vs eq_refl)).
  - (* ev_call_fail_operator *)
    intros st env fe args l r st1 _ IH Fr Hs He. inversion He; subst.
    destruct (IH Hs ltac:(assumption)) as [S1 [R1 E1]]. nfail S1 E1.
  - (* ev_call_fail_operand *)
    intros st env fe args l fv st1 r st2 _ IHf _ IHa Fr Hs He. inversion He; subst.
    destruct (IHf Hs ltac:(assumption)) as [S1 _].
    destruct (IHa S1 ltac:(assumption)) as [S2 [R2 E2]]. nfail S2 E2.
  - (* ev_call_not_procedure *)
    intros st env fe args l fv st1 r st2 l' _ IHf _ IHa Nr Hp Hl Hs He. inversion He; subst.
    destruct (IHf Hs ltac:(assumption)) as [S1 _].
    destruct (IHa S1 ltac:(assumption)) as [S2 _].
    split; [exact S2|]. split; [intros w E; discriminate|apply quiet_err].
  - (* evs_nil *)
    intros st env Hs He. split; [exact Hs|]. split; [intros vs E; injection E as <-; constructor|apply quiet_ok].
  - (* evs_cons *)
    intros st env e es v st1 vs st2 _ IHe _ IHes Hs He. inversion He; subst.
    destruct (IHe Hs ltac:(assumption)) as [S1 [R1 _]].
    destruct (IHes S1 ltac:(assumption)) as [S2 [R2 _]].
    split; [exact S2|]. split; [|apply quiet_ok].
    intros ws E. injection E as <-. constructor; [now apply R1|now apply R2].
  - (* evs_fail_head *)
    intros st env e es r st1 _ IH Fr Hs He. inversion He; subst.
    destruct (IH Hs ltac:(assumption)) as [S1 [R1 E1]]. nfail S1 E1.
  - (* evs_fail_tail *)
    intros st env e es v st1 r st2 _ IHe _ IHes Fr Hs He. inversion He; subst.
    destruct (IHe Hs ltac:(assumption)) as [S1 _].
    destruct (IHes S1 ltac:(assumption)) as [S2 [R2 E2]]. nfail S2 E2.
  - (* app_unknown_builtin *)
    intros st name args Ha Hs Hp Hargs. split; [exact Hs|]. split; [intros w E; discriminate|].
    intros x E. now injection E as <-.
  - (* app_arity *)
    intros st p args fixed variadic Ha Hok Hs Hp Hargs. split; [exact Hs|]. split; [intros w E; discriminate|apply quiet_err].
  - (* app_builtin *)
    intros st name args fixed variadic r st' Ha Hok Hn Hb Hs Hp Hargs.
    destruct (builtin_call_nb name args st r st' Hs Hargs Hb) as [S R]. split; [exact S|]. split; [exact R|].
    intros x E. destruct (builtin_panic_sites _ _ _ _ _ Hb x E) as [->|E']; [|exact E'].
    exfalso. cbn in Ha. apply (builtin_no_arg_panic name args st fixed variadic Ha Hn Hok). rewrite Hb. exact E.
  - (* app_apply_nil *)
    intros st p r st' Hp _ IH Hs Hpv Hargs. inversion Hargs; subst. apply IH; auto.
  - (* app_apply *)
    intros st p init last r st' Hp Hl _ IH Hs Hpv Hargs. inversion Hargs as [|? ? Hpok Hrest]; subst.
    apply Forall_app in Hrest. destruct Hrest as [Hinit Hlast]. inversion Hlast; subst.
    apply IH; auto. apply Forall_app. split; [exact Hinit|]. now apply vnb_vitems.
  - (* app_apply_not_list *)
    intros st p init last Hp Hl Hs Hpv Hargs. split; [exact Hs|]. split; [intros w E; discriminate|apply quiet_err].
  - (* app_apply_not_procedure *)
    intros st p rest Hp Hs Hpv Hargs. split; [exact Hs|]. split; [intros w E; discriminate|apply quiet_err].
  - (* app_user *)
    intros st fm defs body closure args r st' Hok _ IH Hs Hpv Hargs. destruct Hpv as [Hne [Hd Hb]].
    apply IH; auto. now apply arity_ok_ge in Hok.
  - (* evproc_body *)
    intros st fm defs body closure args surplus st1 st2 u st3 r st4 Hb Hst2 _ IHd _ IHb Hs Hlen Hne Hdefs Hbody Hargs.
    destruct (bind_fixed_nb _ _ _ _ _ _ (alloc_frame_nb st (Some closure) Hs) Hargs Hb) as [S1 Hsur].
    assert (S2 : snb st2).
    { subst st2. destruct (f_rest fm); [|exact S1]. apply env_define_nb; [exact S1|now apply vnb_vlist]. }
    destruct (IHd S2 Hdefs) as [S3 _]. exact (IHb S3 Hne Hbody).
  - (* evproc_defs_fail *)
    intros st fm defs body closure args surplus st1 st2 rd st3 Hb Hst2 _ IHd Fd Hs Hlen Hne Hdefs Hbody Hargs.
    destruct (bind_fixed_nb _ _ _ _ _ _ (alloc_frame_nb st (Some closure) Hs) Hargs Hb) as [S1 Hsur].
    assert (S2 : snb st2).
    { subst st2. destruct (f_rest fm); [|exact S1]. apply env_define_nb; [exact S1|now apply vnb_vlist]. }
    destruct (IHd S2 Hdefs) as [S3 E3]. nfail S3 E3.
  - (* evproc_bind_fail: excluded by the arity test *)
    intros st fm defs body closure args rb Hb Fb Hs Hlen Hne Hdefs Hbody Hargs. exfalso.
    destruct (bind_fixed_no_panic (f_fixed fm) (snd (alloc_frame st (Some closure))) (fst (alloc_frame st (Some closure)))
                args Hlen) as [rest [st1 [E _]]].
    rewrite E in Hb. subst rb. exact Fb.
  - (* evdefs_nil *)
    intros st env Hs Hd. split; [exact Hs|apply quiet_ok].
  - (* evdefs_cons *)
    intros st env x e l ds v st1 r st2 _ IHe _ IHd Hs Hdefs. inversion Hdefs as [|? ? He Hrest]; subst. cbn in He.
    destruct (IHe Hs He) as [S1 [R1 _]].
    apply IHd; [apply env_define_nb; [exact S1|exact (R1 v eq_refl)]|exact Hrest].
  - (* evdefs_fail *)
    intros st env x e l ds r st1 _ IH Fr Hs Hdefs. inversion Hdefs as [|? ? He Hrest]; subst. cbn in He.
    destruct (IH Hs He) as [S1 [R1 E1]]. split; [exact S1|apply quiet_refail; exact E1].
  - (* evbody_empty: excluded by the invariant *)
    intros st env Hs Hne Hb. now exfalso.
  - (* evbody_last *)
    intros st env e r st' _ IH Hs Hne Hb. inversion Hb; subst. now apply IH.
  - (* evbody_cons *)
    intros st env e e2 es v st1 r st2 _ IHe _ IHb Hs Hne Hb. inversion Hb; subst.
    destruct (IHe Hs ltac:(assumption)) as [S1 _]. apply IHb; [exact S1|discriminate|assumption].
  - (* evbody_fail *)
    intros st env e e2 es r st1 _ IH Fr Hs Hne Hb. inversion Hb; subst.
    destruct (IH Hs ltac:(assumption)) as [S1 [R1 E1]]. nfail S1 E1.
Qed.

(** * the statements for users *)

Theorem evaluation_reaches_no_panic_site : forall st env e x st',
  ev st env e (Panic x) st' -> snb st -> nbe e -> x = PUnmodelled.
Proof.
  intros st env e x st' D Hs He. destruct (proj1 no_panic_all _ _ _ _ _ D Hs He) as [_ [_ Q]]. exact (Q x eq_refl).
Qed.

Theorem evaluator_reaches_no_panic_site : forall fuel e env st x st',
  eval_expr fuel e env st = (Panic x, st') -> snb st -> nbe e -> x = PUnmodelled.
Proof.
  intros fuel e env st x st' H Hs He. eapply evaluation_reaches_no_panic_site; [|exact Hs|exact He].
  exact (s_expr fuel (sound_all fuel) _ _ _ _ _ H ltac:(discriminate)).
Qed.

Theorem bodies_stay_non_empty : forall fuel e env st r st',
  eval_expr fuel e env st = (r, st') -> r <> OutOfFuel -> snb st -> nbe e -> snb st' /\ forall v, r = Ok v -> vnb v.
Proof.
  intros fuel e env st r st' H Hr Hs He.
  destruct (proj1 no_panic_all _ _ _ _ _ (s_expr fuel (sound_all fuel) _ _ _ _ _ H Hr) Hs He) as [S [R _]]. now split.
Qed.
