(** C15: the locations in the AST of a form come from the form. [din P d]: every location written in the datum
    satisfies [P] (Proofs/ExtentProofs.v). The macro expander builds its result from unlocated template nodes and
    from parts of the use; the transformer gives every node the location of a datum node it was built from.
    Hence: if every location of the form read from the text satisfies [P] (and "no location" does), so does
    every location of the statement the transformer produces - through any number of macro expansions. *)
From Coq Require Import ZArith NArith List Bool Lia.
From RV Require Import Model.Common Model.Datum Model.Macro Model.Ast Model.Transform Proofs.Basics Proofs.MacroProofs
  Proofs.TransformNB.
From RV Require Import Proofs.ExtentProofs.
Import ListNotations.

Section Loc.
Variable P : loc -> Prop.
Hypothesis P_none : P None.

(** ** data *)
Lemma din_dloc : forall d, din P d -> P (dloc d).
Proof. destruct d; cbn; intros H; try exact H; exact (proj1 H). Qed.

Lemma din_set_dloc : forall d l, din P d -> P l -> din P (set_dloc d l).
Proof. destruct d; cbn; intros l0 H Hl; try exact Hl; (split; [exact Hl|exact (proj2 H)]). Qed.

Lemma dins_iter : forall d, din P d -> dins P (datum_iter d).
Proof.
  induction d as [p l|s l|l|a b l IHa IHb|v l IHv] using datum_ind2; cbn [datum_iter]; try (intros; exact I).
  intros [A [B C]]. split; [exact B|now apply IHb].
Qed.

Lemma din_last_cdr : forall d ld, din P d -> datum_last_cdr d = Some ld -> din P ld.
Proof.
  induction d as [p l|s l|l|a b l IHa IHb|v l IHv] using datum_ind2; cbn [datum_last_cdr]; intros ld H E; try discriminate.
  destruct H as [A [B C]]. destruct b; try discriminate; try (injection E as <-; exact C). all: try (now apply IHb).
Qed.

Lemma dins_items : forall d, din P d -> dins P (datum_items d).
Proof.
  induction d as [p l|s l|l|a b l IHa IHb|v l IHv] using datum_ind2; cbn [datum_items]; try (intros; exact I).
  intros [A [B C]]. destruct b; cbn; try (split; [exact B|exact I]); try (split; [exact B|split; [exact C|exact I]]).
  all: try (split; [exact B|now apply IHb]).
Qed.

Lemma din_dlist : forall l, dins P l -> din P (dlist l).
Proof. induction l as [|x r IH]; cbn; [intros; exact P_none|]. intros [A B]. split; [exact P_none|]. split; [exact A|now apply IH]. Qed.

Lemma dins_In : forall l x, dins P l -> In x l -> din P x.
Proof. induction l as [|y r IH]; intros x H Hin; [destruct Hin|]. destruct H as [A B]. destruct Hin as [<-|Hin]; [exact A|now apply IH]. Qed.

Lemma dins_of_Forall : forall l, Forall (din P) l -> dins P l.
Proof. intros l H. induction H; cbn; auto. Qed.
Lemma Forall_of_dins : forall l, dins P l -> Forall (din P) l.
Proof. induction l as [|x r IH]; intros H; [constructor|]. destruct H. constructor; auto. Qed.

(** ** the macro expander *)
Definition tok (s : subst) : Prop := Forall (fun e => din P (fst (snd e)) /\ dins P (snd (snd e))) s.

Lemma tok_get : forall s x d v, tok s -> subst_get s x = Some (d, v) -> din P d /\ dins P v.
Proof.
  induction s as [|[y w] r IH]; intros x d v H E; cbn in E; [discriminate|]. inversion H as [|? ? Hy Hr]; subst.
  destruct (str_eqb x y); [injection E as ->; exact Hy|eapply IH; eassumption].
Qed.

Lemma tok_insert : forall s x d v, tok s -> din P d -> dins P v -> tok (subst_insert s x (d, v)).
Proof.
  induction s as [|[y w] r IH]; intros x d v H Hd Hv; cbn.
  - constructor; [split; assumption|constructor].
  - inversion H as [|? ? Hy Hr]; subst. destruct (str_eqb x y).
    + constructor; [cbn; split; assumption|exact Hr].
    + constructor; [exact Hy|now apply IH].
Qed.

Lemma tok_push_all : forall fresh s s', tok s -> tok fresh -> subst_push_all s fresh = Ok s' -> tok s'.
Proof.
  induction fresh as [|[x [d w]] r IH]; intros s s' Hs Hf H; cbn in H; [now injection H as <-|].
  inversion Hf as [|? ? [Hd _] Hr]; subst. cbn in Hd.
  unfold subst_push in H. destruct (subst_get s x) as [[a v]|] eqn:E; [|discriminate].
  destruct (tok_get _ _ _ _ Hs E) as [Ha Hv].
  eapply IH; [|exact Hr|exact H]. apply tok_insert; [exact Hs|exact Ha|].
  apply dins_app. split; [exact Hv|split; [exact Hd|exact I]].
Qed.

Record mloc (f : nat) : Prop := {
  ml_datum : forall lits p d s b s', match_datum f lits p d s = Ok (b, s') -> din P d -> tok s -> tok s';
  ml_stream : forall lits ps ds s multi b s', match_stream f lits ps ds s multi = Ok (b, s') -> dins P ds -> tok s -> tok s'
}.

Lemma mloc_step : forall f, mloc f -> mloc (S f).
Proof.
  intros f IH. split.
  - intros lits p d s b s' H Hd Hs. cbn [match_datum] in H.
    destruct p as [l|l|l|a b0 l|v l|y l|q l].
    + now injection H as _ <-.
    + now injection H as _ <-.
    + destruct (is_pair_datum d); [|now injection H as _ <-].
      apply bind_Ok_inv in H. destruct H as [[b1 s1] [Hm H]].
      pose proof (ml_stream f IH _ _ _ _ _ _ _ Hm (dins_iter d Hd) Hs) as T1.
      destruct b1; [|now injection H as _ <-]. cbn [pat_last_cdr] in H. destruct (datum_last_cdr d); now injection H as _ <-.
    + destruct (is_pair_datum d); [|now injection H as _ <-].
      apply bind_Ok_inv in H. destruct H as [[b1 s1] [Hm H]].
      pose proof (ml_stream f IH _ _ _ _ _ _ _ Hm (dins_iter d Hd) Hs) as T1.
      destruct b1; [|now injection H as _ <-].
      destruct (pat_last_cdr (PCons a b0 l)) as [lp|]; destruct (datum_last_cdr d) as [ld|] eqn:E2; try (now injection H as _ <-).
      exact (ml_datum f IH _ _ _ _ _ _ H (din_last_cdr d ld Hd E2) T1).
    + destruct d as [q0 l0|y0 l0|l0|a0 b1 l0|v0 l0]; try (now injection H as _ <-).
      destruct Hd as [_ Hv]. exact (ml_stream f IH _ _ _ _ _ _ _ H Hv Hs).
    + destruct (str_in y lits); injection H as _ <-; [exact Hs|]. apply tok_insert; [exact Hs|exact Hd|exact I].
    + destruct d; now injection H as _ <-.
  - intros lits ps ds s multi b s' H Hds Hs. rewrite match_stream_S in H.
    destruct ps as [|sp ps']; destruct ds as [|sd ds']; try (now injection H as _ <-).
    + destruct sp; try (now injection H as _ <-). destruct multi; [|now injection H as _ <-].
      exact (ml_stream f IH _ _ _ _ _ _ _ H I Hs).
    + destruct Hds as [Hsd Hds'].
      apply bind_Ok_inv in H. destruct H as [[b1 s1] [Hm H]].
      pose proof (ml_datum f IH _ _ _ _ _ _ Hm Hsd Hs) as T1.
      destruct b1; [|now injection H as _ <-].
      destruct sp as [l|l|l|a b0 l|v l|y l|q l]; try (exact (ml_stream f IH _ _ _ _ _ _ _ H Hds' T1)).
      * destruct multi as [mmp|]; [|discriminate].
        apply bind_Ok_inv in H. destruct H as [[b2 fresh] [Hf H]].
        pose proof (ml_datum f IH _ _ _ _ _ _ Hf Hsd ltac:(constructor)) as Tf.
        destruct b2; [|now injection H as _ <-].
        apply bind_Ok_inv in H. destruct H as [s2 [Hp H]].
        pose proof (tok_push_all _ _ _ T1 Tf Hp) as T2.
        apply bind_Ok_inv in H. destruct H as [[b3 s3] [Hr H]].
        pose proof (ml_stream f IH _ _ _ _ _ _ _ Hr Hds' T2) as T3.
        destruct b3; [now injection H as _ <-|]. exact (ml_stream f IH _ _ _ _ _ _ _ H Hds' T3).
      * destruct (str_in y lits); exact (ml_stream f IH _ _ _ _ _ _ _ H Hds' T1).
Qed.

Lemma mloc_all : forall f, mloc f.
Proof. induction f; [split; intros; cbn in *; discriminate|now apply mloc_step]. Qed.

Lemma subst_item_loc : forall fuel t s idx d, subst_item fuel t s idx = Ok (Some d) -> tok s -> din P d.
Proof.
  induction fuel as [|f IH]; intros t s idx d H Hs; cbn [subst_item] in H; [discriminate|].
  assert (G : forall els ds,
             (fix go (els : list (template * bool)) : res (option (list datum)) :=
                match els with
                | [] => Ok (Some [])
                | (t', _) :: r =>
                    do o <- subst_item f t' s idx ;;
                    match o with
                    | None => Ok None
                    | Some d => do os <- go r ;; Ok (match os with Some l => Some (d :: l) | None => None end)
                    end
                end) els = Ok (Some ds) -> dins P ds).
  { induction els as [|[t' b] r IHr]; intros ds E.
    - injection E as <-. exact I.
    - apply bind_Ok_inv in E. destruct E as [o1 [E1 E]]. destruct o1 as [d1|]; [|discriminate].
      apply bind_Ok_inv in E. destruct E as [os [E2 E]]. destruct os as [l0|]; [|discriminate]. injection E as <-.
      split; [eapply IH; eassumption|now apply IHr]. }
  destruct t as [els l|els l|x l|p l].
  - apply bind_Ok_inv in H. destruct H as [o1 [E1 H]]. destruct o1 as [ds|]; [|discriminate]. injection H as <-.
    apply din_dlist. exact (G _ _ E1).
  - apply bind_Ok_inv in H. destruct H as [o1 [E1 H]]. destruct o1 as [ds|]; [|discriminate]. injection H as <-.
    cbn [din]. split; [exact P_none|exact (G _ _ E1)].
  - destruct (subst_get s x) as [[d0 vec]|] eqn:E.
    + destruct (tok_get _ _ _ _ Hs E) as [_ Hv]. injection H as H. destruct vec as [|v0 vr]; [discriminate|].
      eapply dins_In; [exact Hv|]. eapply nth_error_In. exact H.
    + injection H as <-. exact P_none.
  - injection H as <-. exact P_none.
Qed.

Lemma subst_items_from_loc : forall fuel t s idx ds, subst_items_from fuel t s idx = Ok ds -> tok s -> dins P ds.
Proof.
  induction fuel as [|f IH]; intros t s idx ds H Hs; cbn [subst_items_from] in H; [discriminate|].
  apply bind_Ok_inv in H. destruct H as [o [E H]]. destruct o as [d|]; [|injection H as <-; exact I].
  apply bind_Ok_inv in H. destruct H as [r [Er H]]. injection H as <-.
  split; [eapply subst_item_loc; eassumption|eapply IH; eassumption].
Qed.

Lemma substitute_loc : forall fuel t s ds, substitute fuel t s = Ok ds -> tok s -> dins P ds.
Proof.
  induction fuel as [|f IH]; intros t s ds H Hs; cbn [substitute] in H; [discriminate|].
  assert (G : forall els items,
             (fix go (els : list (template * bool)) : res (list datum) :=
                match els with
                | [] => Ok []
                | (t', ell) :: r =>
                    do first <- substitute f t' s ;;
                    do more <- (if ell then subst_items_from f t' s 0 else Ok []) ;;
                    do rest <- go r ;;
                    Ok (first ++ more ++ rest)
                end) els = Ok items -> dins P items).
  { induction els as [|[t' b] r IHr]; intros items E.
    - injection E as <-. exact I.
    - apply bind_Ok_inv in E. destruct E as [first [E1 E]]. apply bind_Ok_inv in E. destruct E as [more [E2 E]].
      apply bind_Ok_inv in E. destruct E as [rest [E3 E]]. injection E as <-.
      apply dins_app. split; [eapply IH; eassumption|]. apply dins_app. split; [|now apply IHr].
      destruct b; [eapply subst_items_from_loc; eassumption|injection E2 as <-; exact I]. }
  destruct t as [els l|els l|x l|p l].
  - apply bind_Ok_inv in H. destruct H as [items [E H]]. injection H as <-. split; [|exact I]. apply din_dlist. exact (G _ _ E).
  - apply bind_Ok_inv in H. destruct H as [items [E H]]. injection H as <-. split; [|exact I]. cbn [din]. split; [exact P_none|exact (G _ _ E)].
  - destruct (subst_get s x) as [[d0 vec]|] eqn:E; injection H as <-; (split; [|exact I]).
    + exact (proj1 (tok_get _ _ _ _ Hs E)).
    + exact P_none.
  - injection H as <-. split; [exact P_none|exact I].
Qed.

Lemma transform_use_loc : forall tr d ex, transform_use tr d = Ok ex -> din P d -> din P ex.
Proof.
  intros tr d ex H Hd. unfold transform_use in H. revert H. generalize (t_literals tr) as lits.
  induction (t_rules tr) as [|[p t] r IH]; intros lits H; cbn [apply_rules] in H; [discriminate|].
  apply bind_Ok_inv in H. destruct H as [[b s] [Hm H]].
  destruct b; [|now apply (IH lits)].
  pose proof (ml_datum _ (mloc_all _) _ _ _ _ _ _ Hm Hd ltac:(constructor)) as Ts.
  apply bind_Ok_inv in H. destruct H as [out [Hs H]].
  pose proof (substitute_loc _ _ _ _ Hs Ts) as Ho.
  destruct out as [|one [|? ?]]; try (unfold lerr in H; discriminate). injection H as <-. exact (proj1 Ho).
Qed.

(** ** the AST *)
Inductive ein : expr -> Prop :=
  | ein_sym : forall x l, P l -> ein (ESym x l)
  | ein_prim : forall p l, P l -> ein (EPrim p l)
  | ein_set : forall x e l, P l -> ein e -> ein (ESet x e l)
  | ein_lambda : forall fm defs body l, P l ->
      Forall (fun d => ein (snd (fst d)) /\ P (snd d)) defs -> Forall ein body -> ein (ELambda fm defs body l)
  | ein_call : forall f args l, P l -> ein f -> Forall ein args -> ein (ECall f args l)
  | ein_if : forall c t e l, P l -> ein c -> ein t -> (forall a, e = Some a -> ein a) -> ein (EIf c t e l)
  | ein_quote : forall d l, P l -> din P d -> ein (EQuote d l)
  | ein_datum : forall d l, P l -> din P d -> ein (EDatum d l).

Lemma ein_eloc : forall e, ein e -> P (eloc e).
Proof. intros e H. destruct H; exact H. Qed.

Fixpoint sin (s : stmt) : Prop :=
  match s with
  | SDef _ e l => P l /\ ein e
  | SExpr e => ein e
  | SLibrary _ decls l =>
      P l /\ (fix go (ds : list libdecl) : Prop := match ds with [] => True | d :: r => ldin d /\ go r end) decls
  | SImport _ l => P l
  | SSyntaxDef _ _ l => P l
  end
with ldin (d : libdecl) : Prop :=
  match d with
  | LDBegin body _ => (fix go (ss : list stmt) : Prop := match ss with [] => True | s :: r => sin s /\ go r end) body
  | _ => True
  end.

Lemma sin_library : forall n decls l, P l -> Forall ldin decls -> sin (SLibrary n decls l).
Proof. intros n decls l Hl H. cbn. split; [exact Hl|]. induction H; [exact I|split; assumption]. Qed.
Lemma ldin_begin : forall body l, Forall sin body -> ldin (LDBegin body l).
Proof. intros body l H. cbn. induction H; [exact I|split; assumption]. Qed.

Section Step.
Variable rec : datum -> M stmt.
Hypothesis Hrec : forall d e s e', rec d e = (Ok s, e') -> din P d -> sin s.

Lemma to_expr_loc : forall x e ex e', to_expr_with rec x e = (Ok ex, e') -> din P x -> ein ex.
Proof.
  intros x e ex e' H Hx. unfold to_expr_with in H. apply bindM_inv in H. destruct H as [s [e1 [Hs H]]].
  apply Hrec in Hs; [|exact Hx]. destruct s; try (apply lift_inv in H; discriminate). apply ret_inv in H. subst. exact Hs.
Qed.

Lemma mapMM_to_expr_loc : forall l e ys e', mapMM (to_expr_with rec) l e = (Ok ys, e') -> dins P l -> Forall ein ys.
Proof.
  induction l as [|x xs IH]; intros e ys e' H Hl; cbn in H.
  - apply ret_inv in H. subst. constructor.
  - destruct Hl as [Hx Hxs]. apply bindM_inv in H. destruct H as [y [e1 [Hy H]]].
    apply bindM_inv in H. destruct H as [ys' [e2 [Hys H]]]. apply ret_inv in H. subst.
    constructor; [eapply to_expr_loc; eassumption|eapply IH; eassumption].
Qed.

Lemma mapMM_rec_loc : forall l e ys e', mapMM rec l e = (Ok ys, e') -> dins P l -> Forall sin ys.
Proof.
  induction l as [|x xs IH]; intros e ys e' H Hl; cbn in H.
  - apply ret_inv in H. subst. constructor.
  - destruct Hl as [Hx Hxs]. apply bindM_inv in H. destruct H as [y [e1 [Hy H]]].
    apply bindM_inv in H. destruct H as [ys' [e2 [Hys H]]]. apply ret_inv in H. subst.
    constructor; [eapply Hrec; eassumption|eapply IH; eassumption].
Qed.

Lemma body_go_loc : forall ds defs exprs e dfs exs e',
  dins P ds -> Forall (fun d => ein (snd (fst d)) /\ P (snd d)) defs -> Forall ein exprs ->
  body_go rec ds defs exprs e = (Ok (dfs, exs), e') ->
  Forall (fun d => ein (snd (fst d)) /\ P (snd d)) dfs /\ Forall ein exs.
Proof.
  induction ds as [|x r IH]; intros defs exprs e dfs exs e' Hds Hd He H; cbn in H.
  - destruct exprs as [|e0 es]; [apply lift_inv in H; discriminate|].
    apply ret_inv in H. injection H as -> ->. split; [now apply Forall_rev|].
    change (rev es ++ [e0]) with (rev (e0 :: es)). now apply Forall_rev.
  - destruct Hds as [Hx Hr]. apply bindM_inv in H. destruct H as [s [e1 [Hs H]]]. apply Hrec in Hs; [|exact Hx].
    destruct s; try (apply lift_inv in H; discriminate).
    + destruct exprs; [|apply lift_inv in H; discriminate].
      destruct Hs as [Hl Hee]. eapply IH; [exact Hr| |exact He|exact H]. constructor; [split; assumption|exact Hd].
    + eapply IH; [exact Hr|exact Hd| |exact H]. constructor; [exact Hs|exact He].
Qed.

Lemma next_or_end_loc : forall l x r, next_or_end l = Ok (x, r) -> dins P l -> din P x /\ dins P r.
Proof. intros [|y l] x r H Hl; cbn in H; [discriminate|]. injection H as <- <-. exact Hl. Qed.

Lemma expect_list_loc : forall d a, expect_list d = Ok a -> a = d.
Proof. intros d a H. unfold expect_list in H. destruct (is_pair_datum d); [now injection H as <-|discriminate]. Qed.

Ltac minv :=
  repeat match goal with
  | H : bindM _ _ _ = (Ok _, _) |- _ =>
      let a := fresh "a" in let e1 := fresh "e" in let Ha := fresh "Ha" in
      apply bindM_inv in H; destruct H as [a [e1 [Ha H]]]
  | H : ret _ _ = (Ok _, _) |- _ => apply ret_inv in H; subst
  | H : lift _ _ = (Ok _, _) |- _ => apply lift_inv in H
  | H : in_child _ _ = (Ok _, _) |- _ => let e1 := fresh "e" in apply in_child_inv in H; destruct H as [e1 H]
  | H : (let '(_, _) := ?x in _) _ = (Ok _, _) |- _ => destruct x
  | H : (if ?b then _ else _) _ = (Ok _, _) |- _ => destruct b eqn:?
  | H : (match ?x with _ => _ end) _ = (Ok _, _) |- _ => destruct x eqn:?
  | H : match ?x with _ => _ end = (Ok _, _) |- _ => destruct x eqn:?
  | H : err _ = Ok _ |- _ => discriminate H
  | H : lerr _ _ = Ok _ |- _ => discriminate H
  | H : (Ok _, _) = (Ok _, _) |- _ => inversion H; subst; clear H
  end.

Ltac harv :=
  repeat match goal with
  | H : expect_list ?d = Ok ?a |- _ => apply expect_list_loc in H; subst a
  | H : next_or_end ?L = Ok (?x, ?r), HL : dins P ?L |- _ =>
      let A := fresh "Dx" in let B := fresh "Dr" in destruct (next_or_end_loc _ _ _ H HL) as [A B]; clear H
  | H : to_expr_with rec ?x _ = (Ok _, _), Hx : din P ?x |- _ => apply (fun h => to_expr_loc _ _ _ _ h Hx) in H
  | H : mapMM (to_expr_with rec) ?l _ = (Ok _, _), Hl : dins P ?l |- _ => apply (fun h => mapMM_to_expr_loc _ _ _ _ h Hl) in H
  | H : mapMM rec ?l _ = (Ok _, _), Hl : dins P ?l |- _ => apply (fun h => mapMM_rec_loc _ _ _ _ h Hl) in H
  | H : body_go rec ?r [] [] _ = (Ok (_, _), _), Hr : dins P ?r |- _ =>
      let A := fresh "Bd" in let B := fresh "Be" in
      destruct (body_go_loc _ _ _ _ _ _ _ Hr (Forall_nil _) (Forall_nil _) H) as [A B]; clear H
  | H : rec ?x _ = (Ok _, _), Hx : din P ?x |- _ => apply (fun h => Hrec _ _ _ _ h Hx) in H
  | H : din P (DCons _ _ _) |- _ => let A := fresh "Dl" in let B := fresh "Da" in let C := fresh "Db" in destruct H as [A [B C]]
  | H : din P (DSym _ _) |- _ => cbn [din] in H
  | H : dins P (_ :: _) |- _ => let A := fresh "Dh" in let B := fresh "Dt" in destruct H as [A B]
  end.

Lemma step_loc : forall d e s e', transform_step rec d e = (Ok s, e') -> din P d -> sin s.
Proof.
  intros d e s e' H Hd. unfold transform_step, body_with in H. cbv zeta in H.
  pose proof (din_dloc d Hd) as Hl.
  destruct d as [p l|x l|l|first rest l|v l]; cbn [dloc] in *.
  - minv. cbn. constructor. exact Hl.
  - minv. cbn. constructor. exact Hl.
  - minv.
  - destruct Hd as [_ [Hfirst Hrest]]. pose proof (dins_items rest Hrest) as Hitems.
    minv; harv.
    all: try (cbn [sin];
              repeat match goal with
                     | |- _ /\ _ => split
                     | |- P (dloc _) => now apply din_dloc
                     | |- P _ => assumption
                     | |- ein (ESym _ _) => apply ein_sym
                     | |- ein (EPrim _ _) => apply ein_prim
                     | |- ein (ESet _ _ _) => apply ein_set
                     | |- ein (ECall _ _ _) => apply ein_call
                     | |- ein (EQuote _ _) => apply ein_quote
                     | |- ein (EDatum _ _) => apply ein_datum
                     | |- ein (ELambda _ _ _ _) => apply ein_lambda
                     | |- ein (EIf _ _ None _) => apply ein_if; [| | |intros ? E; discriminate]
                     | |- ein (EIf _ _ (Some _) _) => apply ein_if; [| | |intros ? E; injection E as <-]
                     | |- ein _ => assumption
                     | |- Forall _ _ => assumption
                     | |- din P _ => assumption
                     end; fail).
    + (* define-library *)
      apply sin_library; [exact Hl|]. revert Ha2. generalize e2 a1 e3. clear - Hrec Dr P_none.
      induction l1 as [|dd r IH]; intros e2 a1 e3 H; cbn in H.
      * apply ret_inv in H. subst. constructor.
      * destruct Dr as [Hdd Hr]. apply bindM_inv in H. destruct H as [y [e4 [Hy H]]].
        apply bindM_inv in H. destruct H as [ys [e5 [Hys H]]]. apply ret_inv in H. subst.
        constructor; [|eapply IH; eassumption].
        clear - Hy Hdd Hrec P_none. pose proof (dins_items dd Hdd) as Hit. minv; harv; try exact I.
        now apply ldin_begin.
    + (* a macro use: the expansion is built from the use and unlocated template nodes, and takes the use's location *)
      assert (Hu : din P (set_dloc rest l)) by now apply din_set_dloc.
      pose proof (transform_use_loc _ _ _ Ha Hu) as Hex.
      eapply Hrec; [exact H|]. apply din_set_dloc; [exact Hex|].
      unfold loc_or. destruct (dloc a) eqn:E; [rewrite <- E; now apply din_dloc|exact Hl].
  - (* a vector literal evaluates to itself *)
    minv. cbn. apply ein_datum; [exact Hl|exact Hd].
Qed.
End Step.

Theorem transform_locations_come_from_the_form : forall fuel d e s e',
  transform_stmt fuel d e = (Ok s, e') -> din P d -> sin s.
Proof.
  induction fuel as [|f IH]; intros d e s e' H Hd; cbn in H; [apply lift_inv in H; discriminate|].
  eapply step_loc; [exact IH|exact H|exact Hd].
Qed.
End Loc.
