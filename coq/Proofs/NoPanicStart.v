(** C07: the invariant of Proofs/NoPanicLoader.v is established by start-up - for ANY text of the bundled
    libraries that start-up accepts - so the whole-program theorem applies to every interpreter created by
    Interpreter::new_with_stdlib(), and to the start-up state computed from the files that are in /repo now. *)
From Coq Require Import ZArith NArith List Bool Lia PeanoNat.
From RV Require Import Model.Common Model.Real32 Model.Num Model.Datum Model.Lexer Model.Reader Model.Macro Model.Ast
  Model.Transform Model.Value Model.Print Model.Builtins Model.Eval Model.Interp Spec.EvalSpec Proofs.Basics
  Proofs.StoreProofs Proofs.EvalProofs Proofs.ImportProofs Proofs.LoaderProofs Proofs.WorldProofs Proofs.RegionProofs
  Proofs.LoaderRegion Proofs.DerivedProofs Proofs.LibBase Proofs.LibBoot Proofs.InstBoot Gen.BaseSld Gen.WriteSld Gen.NativeNames.
From RV Require Import Proofs.NoPanicEval Proofs.TransformNB Proofs.MacroNoPanic Proofs.TransformNoPanic Proofs.NoPanicLoader.
Import ListNotations.

Lemma lib_remove_Forall : forall {A} (P : A -> Prop) (l : list (libname * A)) n,
  Forall (fun x => P (snd x)) l -> Forall (fun x => P (snd x)) (lib_remove l n).
Proof.
  intros A P l n H. induction H as [|[m x] r Hx Hr IH]; cbn; [constructor|].
  destruct (libname_eqb n m); [exact IH|constructor; assumption].
Qed.

Lemma register_factory_nb : forall i n f, inst_nb i -> factory_nb f -> inst_nb (register_factory i n f).
Proof.
  intros i n f [A B] Hf. unfold register_factory. split; cbn.
  - now apply (lib_remove_Forall lib_nb).
  - now apply (lib_set_Forall factory_nb).
Qed.

Lemma native_lib_nb : forall t names, lib_nb (native_lib t names).
Proof.
  intros t names. unfold lib_nb, native_lib, native_defs. apply Forall_forall. intros d Hd. apply in_app_or in Hd.
  destruct Hd as [Hd|Hd]; apply in_map_iff in Hd; destruct Hd as [e [<- _]]; exact I.
Qed.

Theorem new_instance_nb : forall bt wt bn wn st syn i st' syn',
  new_instance bt wt bn wn st syn = (Ok i, st', syn') -> snb st -> cnb {| c_inst := i; c_st := st'; c_syn := syn' |}.
Proof.
  intros bt wt bn wn st syn i st' syn' H Hs. unfold new_instance in H.
  pose proof (alloc_frame_nb st None Hs) as Ha.
  destruct (alloc_frame st None) as [env st1] eqn:EA. cbn [snd] in Ha. cbv zeta in H.
  match type of H with
  | match factory_from_text _ _ ?c with _ => _ end = _ => set (c0 := c) in *
  end.
  assert (I2 : inst_nb (c_inst c0)).
  { unfold c0. cbn [c_inst]. apply register_factory_nb; [apply register_factory_nb|]; try exact (native_lib_nb _ _). split; constructor. }
  destruct (factory_from_text name_scheme_base bt c0) as [[fb| | |] c1] eqn:E1; try discriminate.
  unfold factory_from_text in E1. pose proof (find_library_same _ _ _ _ _ _ E1) as [S1 J1].
  pose proof (find_library_nb _ _ _ _ _ _ E1) as F1.
  match type of H with
  | match factory_from_text _ _ ?c with _ => _ end = _ => set (c1' := c) in *
  end.
  destruct (factory_from_text name_scheme_write wt c1') as [[fw| | |] c2] eqn:E2; try discriminate.
  unfold factory_from_text in E2. pose proof (find_library_same _ _ _ _ _ _ E2) as [S2 J2].
  pose proof (find_library_nb _ _ _ _ _ _ E2) as F2.
  injection H as <- <- <-. split; cbn.
  - rewrite S2. cbn. rewrite S1. exact Ha.
  - apply register_factory_nb; [|exact F2]. rewrite J2. cbn. apply register_factory_nb; [|exact F1]. rewrite J1. exact I2.
Qed.

Lemma import_stdlib_unfold : forall fs cwd c, import_stdlib fs cwd c =
  match eval_import fs cwd 64 default_efuel [IDirect name_scheme_base None; IDirect name_scheme_write None] (i_env (c_inst c)) c with
  | (Ok _, c1) => (Ok tt, c1)
  | (_, c1) => (Panic PStdlibUnwrap, c1)
  end.
Proof. reflexivity. Qed.

Theorem import_stdlib_nb : forall fs cwd c u c', import_stdlib fs cwd c = (Ok u, c') -> cnb c -> cnb c'.
Proof.
  intros fs cwd c u c' H Hc. rewrite import_stdlib_unfold in H.
  (* the match is taken on a variable: the scrutinee itself would be unfolded 64 levels deep by the kernel *)
  remember (eval_import fs cwd 64 default_efuel [IDirect name_scheme_base None; IDirect name_scheme_write None] (i_env (c_inst c)) c)
    as p eqn:E. destruct p as [r c1]. symmetry in E.
  destruct r as [v| | |]; try discriminate. injection H as _ <-.
  exact (proj1 (n_imp _ (loader_nb_all _) _ _ _ _ _ _ _ _ E ltac:(discriminate) Hc)).
Qed.

Lemma snb_empty : snb empty_state.
Proof. split; constructor. Qed.

(** the start-up state computed from the bundled files of /repo, with any syntax table *)
(** the two steps of start-up on the bundled files of /repo, evaluated *)
Lemma boot_steps : exists i0 st0 syn0 u c,
  new_instance base_sld_text write_sld_text native_base_names native_write_names empty_state DerivedProofs.G = (Ok i0, st0, syn0) /\
  import_stdlib [] [] {| c_inst := i0; c_st := st0; c_syn := syn0 |} = (Ok u, c) /\
  booted = Some (c_inst c, c_st c).
Proof.
  do 5 eexists. split; [vm_compute; reflexivity|]. split; [vm_compute; reflexivity|vm_compute; reflexivity].
Qed.

(** the start-up state computed from the bundled files of /repo, with any syntax table *)
Theorem boot_context_meets_the_invariant : forall syn, cnb {| c_inst := boot_inst; c_st := boot_state; c_syn := syn |}.
Proof.
  intros syn. destruct boot_steps as [i0 [st0 [syn0 [u [c [E1 [E2 E3]]]]]]].
  pose proof (new_instance_nb _ _ _ _ _ _ _ _ _ E1 snb_empty) as C1.
  pose proof (import_stdlib_nb _ _ _ _ _ E2 C1) as [A B].
  unfold cnb, boot_inst, boot_state. cbn [c_st c_inst]. rewrite E3. split; assumption.
Qed.

(** No input can crash the interpreter: any text evaluated by an interpreter fresh from start-up, with any
    file system behind the imports and any fuel, reaches no panic site of the Rust code - neither as its
    result nor as the outcome of any of its forms *)
Theorem no_program_text_panics_after_start_up : forall fs cwd efuel text syn r c' trace,
  eval_text fs cwd efuel text {| c_inst := boot_inst; c_st := boot_state; c_syn := syn |} = ((r, c'), trace) ->
  (forall x, r = Panic x -> x = PUnmodelled) /\ (forall x, In (Panic x) trace -> x = PUnmodelled).
Proof.
  intros fs cwd efuel text syn r c' trace H. eapply eval_text_reaches_no_panic_site; [exact H|].
  apply boot_context_meets_the_invariant.
Qed.
