(** C15: the chain from the text to the reported location. A form is read from the text with the cursor going
    from [p] to [p'] (Proofs/ExtentProofs.v); the transformer - through any macro expansions - writes into the AST only
    locations of the form (Proofs/TransformLoc.v); an evaluator error carries a location written in the AST or in the body
    of a procedure that is already in the store (Proofs/LocInvProofs.v). Hence: a located error of evaluating the
    form points into the form's own text, between [p] and [p'], unless it is the location of a procedure body
    that an earlier form or a library put into the store. *)
From Coq Require Import ZArith NArith List Bool Lia.
From RV Require Import Model.Common Model.Datum Model.Lexer Model.Reader Model.Macro Model.Ast Model.Transform Model.Value
  Model.Eval Proofs.Basics Proofs.LocProofs Proofs.LocInvProofs.
From RV Require Import Proofs.ExtentProofs Proofs.TransformLoc.
Import ListNotations.

Lemma ein_eok : forall (P : loc -> Prop) e, ein P e -> eok P e.
Proof.
  intros P. fix IH 1. intros e H. destruct e as [x l|p l|x e l|fm defs body l|f args l|c t alt l|d l|d l]; inversion H; subst.
  - now constructor.
  - constructor.
  - constructor. now apply IH.
  - constructor.
    + match goal with Hd : Forall _ defs |- _ => clear - Hd IH; induction defs as [|d0 r IHr]; [constructor|] ;
        inversion Hd as [|? ? [Hx _] Hr]; subst; constructor; [now apply IH|now apply IHr] end.
    + match goal with Hb : Forall (ein P) body |- _ => clear - Hb IH; induction body as [|b0 r IHr]; [constructor|];
        inversion Hb as [|? ? Hx Hr]; subst; constructor; [now apply IH|now apply IHr] end.
  - constructor; [now apply ein_eloc|now apply IH|].
    match goal with Ha : Forall (ein P) args |- _ => clear - Ha IH; induction args as [|b0 r IHr]; [constructor|];
      inversion Ha as [|? ? Hx Hr]; subst; constructor; [now apply IH|now apply IHr] end.
  - destruct alt as [a|].
    + assert (Ha : eok P a) by (apply IH; match goal with Hx : forall a0, Some a = Some a0 -> _ |- _ => now apply Hx end).
      constructor; [now apply IH|now apply IH|]. intros a' E. injection E as <-. exact Ha.
    + constructor; [now apply IH|now apply IH|]. intros a' E. discriminate.
  - constructor.
  - constructor.
Qed.

(** the statement for users *)
Theorem located_error_points_into_the_form_or_a_stored_procedure :
  forall s d s' tf senv e senv' fuel env st k l st' (Lst : loc -> Prop),
  read_next s = Ok (Some d, s') ->
  transform_stmt tf d senv = (Ok (SExpr e), senv') ->
  eval_expr fuel e env st = (Err k l, st') ->
  slok (fun x => between (lpos s) (lpos s') x \/ Lst x) st ->
  between (lpos s) (lpos s') l \/ Lst l.
Proof.
  intros s d s' tf senv e senv' fuel env st k l st' Lst HR HT HE Hst.
  set (L := fun x => between (lpos s) (lpos s') x \/ Lst x) in *.
  assert (L0 : L None) by (left; exact I).
  destruct (locations_of_a_form_lie_in_its_text s d s' HR) as [_ Hd].
  assert (HdL : din L d) by (eapply din_impl; [|exact Hd]; intros x Hx; now left).
  pose proof (transform_locations_come_from_the_form L L0 tf d senv (SExpr e) senv' HT HdL) as He. cbn in He.
  exact (evaluator_error_location_has_a_source L fuel e env st k l st' L0 HE Hst (ein_eok L e He)).
Qed.

