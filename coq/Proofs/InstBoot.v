(** C19: the instance-level region theorems are not vacuous (see Proofs/LoaderRegion.v) *)
From Coq Require Import ZArith NArith List Bool Lia PeanoNat.
From RV Require Import Model.Common Model.Real32 Model.Num Model.Datum Model.Macro Model.Ast
  Model.Value Model.Print Model.Builtins Model.Eval Model.Interp Spec.EvalSpec Proofs.Basics Proofs.StoreProofs
  Proofs.EvalProofs Proofs.LibBase Proofs.LibBoot Proofs.RegionProofs Proofs.RegionBoot Proofs.LoaderRegion.
Import ListNotations.

Definition boot_inst : instance := match booted with Some (i, _) => i | None => dummy_inst end.

Definition lib_okb (nf nv : nat) (l : library) : bool := forallb (fun d => vokb nf nv (snd d)) l.
Definition inst_okb (st : state) (i : instance) : bool :=
  Nat.ltb (i_env i) (length (frames st)) &&
  forallb (fun nl => lib_okb (length (frames st)) (length (vectors st)) (snd nl)) (i_libraries i) &&
  forallb (fun nf => match snd nf with
                     | FNative defs => lib_okb (length (frames st)) (length (vectors st)) defs
                     | FAst _ => true
                     end) (i_factories i).

Lemma lib_okb_ok : forall st l, lib_okb (length (frames st)) (length (vectors st)) l = true ->
  lib_ok (all_frames st) (all_vectors st) l.
Proof.
  intros st l H. unfold lib_okb in H. rewrite forallb_forall in H. apply Forall_forall.
  intros d Hd. apply vokb_vok. now apply H.
Qed.

Lemma inst_okb_ok : forall st i, inst_okb st i = true -> inst_ok (all_frames st) (all_vectors st) i.
Proof.
  intros st i H. unfold inst_okb in H. apply andb_true_iff in H. destruct H as [H H3].
  apply andb_true_iff in H. destruct H as [H1 H2]. split; [now apply Nat.ltb_lt|]. split.
  - rewrite forallb_forall in H2. apply Forall_forall. intros nl Hin. apply lib_okb_ok. now apply H2.
  - rewrite forallb_forall in H3. apply Forall_forall. intros nf Hin. specialize (H3 nf Hin).
    destruct (snd nf); cbn; [now apply lib_okb_ok|exact I].
Qed.

(** not vacuous: after start-up the instance belongs to the region made of the whole store *)
Theorem boot_instance_in_region :
  inst_ok (all_frames boot_state) (all_vectors boot_state) boot_inst /\ i_env boot_inst = boot_root.
Proof. split; [apply inst_okb_ok; vm_compute; reflexivity|reflexivity]. Qed.
