(** C07: the transformer never builds a procedure with an empty body (LambdaBodyNoExpression), at any
    nesting, through macro expansion, in library bodies: the invariant [nbs] that Proofs/NoPanicEval.v
    starts from. *)
From Coq Require Import ZArith NArith List Bool Lia PeanoNat.
From RV Require Import Model.Common Model.Datum Model.Macro Model.Ast Model.Transform.
From RV Require Import Proofs.NoPanicEval.
Import ListNotations.

Fixpoint nbs (s : stmt) : Prop :=
  match s with
  | SDef _ e _ => nbe e
  | SExpr e => nbe e
  | SLibrary _ decls _ =>
      (fix go (ds : list libdecl) : Prop := match ds with [] => True | d :: r => nbd d /\ go r end) decls
  | _ => True
  end
with nbd (d : libdecl) : Prop :=
  match d with
  | LDBegin body _ =>
      (fix go (ss : list stmt) : Prop := match ss with [] => True | s :: r => nbs s /\ go r end) body
  | _ => True
  end.

Lemma nbs_library : forall n decls l, Forall nbd decls -> nbs (SLibrary n decls l).
Proof. intros n decls l H. cbn. induction H; [exact I|split; assumption]. Qed.
Lemma nbd_begin : forall body l, Forall nbs body -> nbd (LDBegin body l).
Proof. intros body l H. cbn. induction H; [exact I|split; assumption]. Qed.

Lemma bindM_inv : forall {A B} (m : M A) (k : A -> M B) e b e',
  bindM m k e = (Ok b, e') -> exists a e1, m e = (Ok a, e1) /\ k a e1 = (Ok b, e').
Proof.
  intros A B m k e b e' H. unfold bindM in H. destruct (m e) as [[a|kk l|x|] e1]; try discriminate.
  exists a, e1. now split.
Qed.
Lemma lift_inv : forall {A} (r : res A) e a e', lift r e = (Ok a, e') -> r = Ok a.
Proof. intros A r e a e' H. unfold lift in H. now injection H as -> _. Qed.
Lemma ret_inv : forall {A} (x : A) e a e', ret x e = (Ok a, e') -> a = x.
Proof. intros A x e a e' H. unfold ret in H. now injection H as -> _. Qed.
Lemma in_child_inv : forall {A} (m : M A) e a e', in_child m e = (Ok a, e') -> exists e1, m ([] :: e) = (Ok a, e1).
Proof. intros A m e a e' H. unfold in_child in H. destruct (m ([] :: e)) as [r e1]. injection H as -> _. now exists e1. Qed.

Lemma mapMM_Forall : forall {A B} (P : B -> Prop) (f : A -> M B) l e ys e',
  (forall x e a e', f x e = (Ok a, e') -> P a) -> mapMM f l e = (Ok ys, e') -> Forall P ys.
Proof.
  intros A B P f l. induction l as [|x xs IH]; intros e ys e' Hf H; cbn in H.
  - apply ret_inv in H. subst. constructor.
  - apply bindM_inv in H. destruct H as [y [e1 [Hy H]]].
    apply bindM_inv in H. destruct H as [ys' [e2 [Hys H]]]. apply ret_inv in H. subst.
    constructor; [eapply Hf; exact Hy|eapply IH; eassumption].
Qed.

Section Step.
Variable rec : datum -> M stmt.
Hypothesis Hrec : forall d e s e', rec d e = (Ok s, e') -> nbs s.

Lemma to_expr_nb : forall x e ex e', to_expr_with rec x e = (Ok ex, e') -> nbe ex.
Proof.
  intros x e ex e' H. unfold to_expr_with in H. apply bindM_inv in H. destruct H as [s [e1 [Hs H]]].
  apply Hrec in Hs. destruct s; try (apply lift_inv in H; discriminate). apply ret_inv in H. subst. exact Hs.
Qed.

Lemma body_go_nb : forall ds defs exprs e dfs exs e',
  Forall (fun d => nbe (snd (fst d))) defs -> Forall nbe exprs ->
  body_go rec ds defs exprs e = (Ok (dfs, exs), e') ->
  exs <> [] /\ Forall (fun d => nbe (snd (fst d))) dfs /\ Forall nbe exs.
Proof.
  induction ds as [|x r IH]; intros defs exprs e dfs exs e' Hd He H; cbn in H.
  - destruct exprs as [|e0 es]; [apply lift_inv in H; discriminate|].
    apply ret_inv in H. injection H as -> ->. split; [|split].
    + intros E. destruct (rev es); discriminate E.
    + apply Forall_rev. exact Hd.
    + change (rev es ++ [e0]) with (rev (e0 :: es)). apply Forall_rev. exact He.
  - apply bindM_inv in H. destruct H as [s [e1 [Hs H]]]. apply Hrec in Hs.
    destruct s; try (apply lift_inv in H; discriminate).
    + destruct exprs; [|apply lift_inv in H; discriminate].
      eapply IH; [| |exact H]; [constructor; [exact Hs|exact Hd]|exact He].
    + eapply IH; [| |exact H]; [exact Hd|constructor; [exact Hs|exact He]].
Qed.

Lemma body_with_nb : forall ds e dfs exs e', body_with rec ds e = (Ok (dfs, exs), e') ->
  exs <> [] /\ Forall (fun d => nbe (snd (fst d))) dfs /\ Forall nbe exs.
Proof. intros. eapply body_go_nb; [| |eassumption]; constructor. Qed.

Ltac minv :=
  repeat match goal with
  | H : bindM _ _ _ = (Ok _, _) |- _ =>
      let a := fresh "a" in let e1 := fresh "e" in let Ha := fresh "Ha" in
      apply bindM_inv in H; destruct H as [a [e1 [Ha H]]]
  | H : ret _ _ = (Ok _, _) |- _ => apply ret_inv in H; subst
  | H : lift _ _ = (Ok _, _) |- _ => apply lift_inv in H
  | H : in_child _ _ = (Ok _, _) |- _ => let e1 := fresh "e" in apply in_child_inv in H; destruct H as [e1 H]
  | H : (let '(_, _) := ?x in _) _ = (Ok _, _) |- _ => destruct x
  | H : (if ?b then _ else _) _ = (Ok _, _) |- _ => destruct b eqn:?
  | H : (match ?x with _ => _ end) _ = (Ok _, _) |- _ => destruct x eqn:?
  | H : match ?x with _ => _ end = (Ok _, _) |- _ => destruct x eqn:?
  | H : err _ = Ok _ |- _ => discriminate H
  | H : lerr _ _ = Ok _ |- _ => discriminate H
  | H : (Ok _, _) = (Ok _, _) |- _ => inversion H; subst; clear H
  end.

Ltac harvest :=
  repeat match goal with
  | H : to_expr_with rec _ _ = (Ok _, _) |- _ => apply to_expr_nb in H
  | H : mapMM (to_expr_with rec) _ _ = (Ok _, _) |- _ => apply (mapMM_Forall nbe (to_expr_with rec) _ _ _ _ to_expr_nb) in H
  | H : mapMM rec _ _ = (Ok _, _) |- _ => apply (mapMM_Forall nbs rec _ _ _ _ Hrec) in H
  | H : body_with rec _ _ = (Ok (_, _), _) |- _ =>
      let H1 := fresh "Hne" in let H2 := fresh "Hdf" in let H3 := fresh "Hbd" in
      apply body_with_nb in H; destruct H as [H1 [H2 H3]]
  | H : rec _ _ = (Ok _, _) |- _ => apply Hrec in H
  end.

Lemma step_nb : forall d e s e', transform_step rec d e = (Ok s, e') -> nbs s.
Proof.
  intros d e s e' H. unfold transform_step in H. cbv zeta in H.
  destruct d as [p l|x l|l|first rest l|v l].
  - minv. constructor.
  - minv. constructor.
  - minv.
  - minv; harvest.
    all: try (cbn; constructor; assumption).
    all: try assumption.
    + apply nbs_library. revert Ha2. apply mapMM_Forall. clear - Hrec. intros x e a e' H.
      minv; harvest; try exact I. now apply nbd_begin.
    + cbn. constructor; try assumption. intros ? E; discriminate.
    + cbn. constructor; try assumption. intros ? E; injection E as <-; assumption.
  - minv. constructor.
Qed.
End Step.

Theorem transform_bodies_non_empty : forall fuel d e s e', transform_stmt fuel d e = (Ok s, e') -> nbs s.
Proof.
  induction fuel as [|f IH]; intros d e s e' H; cbn in H; [apply lift_inv in H; discriminate|].
  eapply step_nb; [exact IH|exact H].
Qed.
