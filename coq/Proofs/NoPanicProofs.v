(** C07: the panic sites of the evaluator that an argument-count check makes unreachable. *)
From Coq Require Import ZArith NArith List Bool Lia.
From RV Require Import Model.Common Model.Real32 Model.Num Model.Datum Model.Macro Model.Ast
  Model.Value Model.Print Model.Builtins Model.Eval Proofs.Basics.
Import ListNotations.

(** apply_scheme_procedure: arg_iter.next().unwrap() cannot fail once the arity test passed *)
Lemma bind_fixed_no_panic : forall names st env args,
  length names <= length args ->
  exists rest st', bind_fixed st env names args = Ok (rest, st') /\ length rest = length args - length names.
Proof.
  induction names as [|x xs IH]; intros st env args H; cbn.
  - exists args, st. split; [reflexivity|lia].
  - destruct args as [|v vs]; cbn in H; [lia|].
    destruct (IH (env_define st env x v) env vs ltac:(lia)) as [rest [st' [E L]]].
    exists rest, st'. split; [exact E|]. cbn. lia.
Qed.

Lemma arity_ok_ge : forall n fixed variadic, arity_ok n fixed variadic = true -> fixed <= n.
Proof.
  intros n fixed variadic H. unfold arity_ok in H. apply andb_true_iff in H as [H _].
  apply negb_true_iff in H. apply Nat.ltb_ge in H. exact H.
Qed.

(** the native procedures: iter.next().unwrap() cannot fail once the arity test passed *)
Lemma name_is_eq : forall name l, name_is name l = true -> name = s l.
Proof. intros name l H. unfold name_is in H. now apply str_eqb_eq in H. Qed.

Definition not_arg_panic (x : res value * state) : Prop := fst x <> Panic PBuiltinArg.

Definition clean {A} (r : res A) : Prop := forall x, r <> Panic x.

Lemma clean_bind : forall {A B} (r : res A) (k : A -> res B), clean r -> (forall a, clean (k a)) -> clean (bind r k).
Proof. intros A B [a|kk l|x|] k H K; cbn; auto; intros y; try discriminate. exfalso. now apply (H x). Qed.
Lemma clean_ok : forall {A} (a : A), clean (Ok a).
Proof. intros A a x. discriminate. Qed.
Lemma clean_err : forall {A} k l, clean (@Err A k l).
Proof. intros A k l x. discriminate. Qed.

Lemma clean_expect_number : forall v, clean (expect_number v).
Proof. destruct v; cbn; try apply clean_ok; apply clean_err. Qed.
Lemma clean_expect_boolean : forall v, clean (expect_boolean v).
Proof. destruct v; cbn; try apply clean_ok; apply clean_err. Qed.
Lemma clean_num_div : forall a b, clean (num_div a b).
Proof.
  intros a b. unfold num_div. destruct (upcast a b);
    repeat match goal with |- clean (if ?c then _ else _) => destruct c end; try apply clean_ok; apply clean_err.
Qed.
Lemma clean_num_exact : forall a, clean (num_exact a).
Proof. intros [z|n d|r]; cbn; try apply clean_ok. destruct (_ && _); [apply clean_ok|apply clean_err]. Qed.
Lemma clean_num_floor_quotient : forall a b, clean (num_floor_quotient a b).
Proof. intros. unfold num_floor_quotient. apply clean_bind; [apply clean_num_div|intros; apply clean_ok]. Qed.
Lemma clean_num_floor_remainder : forall a b, clean (num_floor_remainder a b).
Proof. intros. unfold num_floor_remainder. apply clean_bind; [apply clean_num_floor_quotient|intros; apply clean_ok]. Qed.
Lemma clean_fold_num : forall f args acc, (forall a b, clean (f a b)) -> clean (fold_num f acc args).
Proof.
  intros f args. induction args as [|v r IH]; intros acc Hf; cbn; [apply clean_ok|].
  apply clean_bind; [apply clean_expect_number|]. intros n.
  apply clean_bind; [apply Hf|]. intros a. now apply IH.
Qed.
Lemma clean_okf : forall f a b, clean (okf f a b).
Proof. intros. apply clean_ok. Qed.
Lemma clean_cmp_chain : forall op args last acc, clean (cmp_chain op last args acc).
Proof.
  intros op args. induction args as [|v r IH]; intros last acc; cbn; [apply clean_ok|].
  apply clean_bind; [apply clean_expect_number|]. intros n. apply IH.
Qed.
Lemma clean_num_compare : forall op args, clean (num_compare op args).
Proof.
  intros op [|v r]; cbn; [apply clean_ok|].
  apply clean_bind; [apply clean_expect_number|]. intros n.
  apply clean_bind; [apply clean_cmp_chain|]. intros; apply clean_ok.
Qed.
Lemma clean_bool_chain : forall args last acc, clean (bool_chain last args acc).
Proof.
  induction args as [|v r IH]; intros last acc; cbn; [apply clean_ok|].
  apply clean_bind; [apply clean_expect_boolean|]. intros n. apply IH.
Qed.

Definition entry_safe (e : str * (nat * bool)) : Prop :=
  forall args st, fst (snd e) <= length args -> not_arg_panic (builtin_call (fst e) args st).

Ltac clean_tac :=
  repeat first
    [ apply clean_ok | apply clean_err | apply clean_fold_num; intros | apply clean_okf | apply clean_num_div
    | apply clean_num_compare | apply clean_bool_chain | apply clean_num_exact
    | apply clean_num_floor_quotient | apply clean_num_floor_remainder | apply clean_expect_number | apply clean_expect_boolean
    | apply clean_bind; [|intros]
    | match goal with
      | |- clean (match ?x with _ => _ end) => destruct x
      | |- clean (if ?x then _ else _) => destruct x
      end ].

Ltac finish_entry :=
  unfold not_arg_panic; unfold bind, expect_number, expect_integer, expect_boolean, type_err, err;
  repeat (match goal with
          | |- context [match ?x with _ => _ end] => is_var x; destruct x
          end; cbn);
  repeat match goal with
  | |- context [let '(_, _) := ?x in _] => destruct x
  | |- context [match ?x with _ => _ end] => destruct x
  end; cbn; try discriminate.

(** a pure builtin whose result is clean *)
Ltac pure_clean :=
  unfold builtin_call; cbn; unfold not_arg_panic, num1, arg1, arg2, arg3; cbn [fst bind];
  match goal with |- ?r <> Panic PBuiltinArg => assert (Hc : clean r); [clean_tac|apply Hc] end.

Ltac entry_tac :=
  intros args st H; cbn in H;
  first
    [ solve [pure_clean]
    | solve [unfold builtin_call; cbn; finish_entry]
    | destruct args as [|a1 args]; [cbn in H; lia|];
      first [ solve [pure_clean]
            | solve [unfold builtin_call; cbn; finish_entry]
            | destruct args as [|a2 args]; [cbn in H; lia|];
              first [ solve [pure_clean]
                    | solve [unfold builtin_call; cbn; finish_entry]
                    | destruct args as [|a3 args]; [cbn in H; lia|];
                      solve [unfold builtin_call; cbn; finish_entry] ] ] ].

Opaque display display_fuel List.repeat.
Lemma all_entries_safe : Forall entry_safe (List.filter (fun e => negb (str_eqb (fst e) apply_name))
                                             (builtin_table ++ write_table ++ tick_table)).
Proof.
  vm_compute List.filter. repeat (apply Forall_cons; [unfold entry_safe; cbn [fst snd]; entry_tac|]).
  apply Forall_nil.
Qed.
Transparent display display_fuel List.repeat.

Theorem builtin_no_arg_panic : forall name args st fixed variadic,
  builtin_arity name = Some (fixed, variadic) -> str_eqb name apply_name = false ->
  arity_ok (length args) fixed variadic = true ->
  fst (builtin_call name args st) <> Panic PBuiltinArg.
Proof.
  intros name args st fixed variadic Ha Hn Har.
  unfold builtin_arity in Ha. apply alist_get_In in Ha.
  pose proof all_entries_safe as F. rewrite Forall_forall in F.
  specialize (F (name, (fixed, variadic))).
  assert (HI : In (name, (fixed, variadic))
                 (List.filter (fun e => negb (str_eqb (fst e) apply_name)) (builtin_table ++ write_table ++ tick_table))).
  { apply filter_In. split; [exact Ha|]. cbn [fst]. now rewrite Hn. }
  specialize (F HI). unfold entry_safe in F. cbn [fst snd] in F.
  apply F. now apply arity_ok_ge in Har.
Qed.
