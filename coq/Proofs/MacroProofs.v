(** C04: facts about the syntax-rules matcher and expander of Model/Macro.v. *)
From Coq Require Import ZArith NArith List Bool Lia.
From RV Require Import Model.Common Model.Datum Model.Macro Proofs.Basics.
Import ListNotations.

(** ** rule selection: rules are tried in textual order, each with a fresh table *)

Definition rule_matches (lits : list str) (d : datum) (rule : pattern * template) : res (bool * subst) :=
  match_datum (match_fuel (fst rule) d) lits (fst rule) d [].

Definition instantiate (rule : pattern * template) (d : datum) (s : subst) : res datum :=
  do out <- substitute (subst_fuel (snd rule) d) (snd rule) s ;;
  match out with
  | [one] => Ok one
  | _ => lerr TransformOutMultipleDatum (ploc_of (fst rule))
  end.

(** the first rule whose pattern matches the use decides the expansion: it is that rule's
    template filled from that rule's own bindings; bindings a failed rule made are discarded *)
Lemma first_rule_wins : forall before rule after lits d s,
  (forall r0, In r0 before -> exists s0, rule_matches lits d r0 = Ok (false, s0)) ->
  rule_matches lits d rule = Ok (true, s) ->
  apply_rules (before ++ rule :: after) lits d = instantiate rule d s.
Proof.
  induction before as [|[p0 t0] before IH]; intros [p t] after lits d s Hb Hm; cbn [app apply_rules].
  - unfold rule_matches in Hm. cbn [fst] in Hm. rewrite Hm. cbn [bind]. reflexivity.
  - destruct (Hb (p0, t0) (or_introl eq_refl)) as [s0 H0]. unfold rule_matches in H0. cbn [fst] in H0.
    rewrite H0. cbn [bind]. apply IH; [|exact Hm]. intros r0 Hr0. apply Hb. now right.
Qed.

(** a use that matches no rule is a syntax error *)
Lemma no_rule_matches : forall rules lits d,
  (forall r0, In r0 rules -> exists s0, rule_matches lits d r0 = Ok (false, s0)) ->
  apply_rules rules lits d = Err MacroMissMatch None.
Proof.
  induction rules as [|[p0 t0] rules IH]; intros lits d H; cbn [apply_rules]; [reflexivity|].
  destruct (H (p0, t0) (or_introl eq_refl)) as [s0 H0]. unfold rule_matches in H0. cbn [fst] in H0.
  rewrite H0. cbn [bind]. apply IH. intros r0 Hr0. apply H. now right.
Qed.

(** an error met while matching a rule (an ellipsis without a preceding pattern) is reported *)
Lemma rule_error_propagates : forall before rule after lits d k l,
  (forall r0, In r0 before -> exists s0, rule_matches lits d r0 = Ok (false, s0)) ->
  rule_matches lits d rule = Err k l ->
  apply_rules (before ++ rule :: after) lits d = Err k l.
Proof.
  induction before as [|[p0 t0] before IH]; intros [p t] after lits d k l Hb Hm; cbn [app apply_rules].
  - unfold rule_matches in Hm. cbn [fst] in Hm. rewrite Hm. reflexivity.
  - destruct (Hb (p0, t0) (or_introl eq_refl)) as [s0 H0]. unfold rule_matches in H0. cbn [fst] in H0.
    rewrite H0. cbn [bind]. apply IH; [|exact Hm]. intros r0 Hr0. apply Hb. now right.
Qed.

(** ** what the leaf patterns match *)

Lemma match_underscore : forall f lits l d s, match_datum (S f) lits (PUnderscore l) d s = Ok (true, s).
Proof. reflexivity. Qed.

(** a pattern variable matches any form and records it *)
Lemma match_variable : forall f lits x l d s, str_in x lits = false ->
  match_datum (S f) lits (PIdent x l) d s = Ok (true, subst_insert s x (d, [])).
Proof. intros. cbn. now rewrite H. Qed.

(** a literal identifier matches only itself *)
Lemma match_literal_identifier : forall f lits x l d s, str_in x lits = true ->
  match_datum (S f) lits (PIdent x l) d s =
  Ok (match d with DSym y _ => str_eqb y x | _ => false end, s).
Proof. intros. cbn. now rewrite H. Qed.

Lemma match_literal_identifier_iff : forall f lits x l d s b s', str_in x lits = true ->
  match_datum (S f) lits (PIdent x l) d s = Ok (b, s') ->
  (b = true <-> exists l', d = DSym x l') /\ s' = s.
Proof.
  intros f lits x l d s b s' H Hm. rewrite match_literal_identifier in Hm by assumption.
  injection Hm as <- <-. split; [|reflexivity]. destruct d; split; intro G; try discriminate;
    try (destruct G as [l' G]; discriminate).
  - apply str_eqb_eq in G. subst. eauto.
  - destruct G as [l' G]. injection G as -> _. apply str_eqb_refl.
Qed.

(** a literal datum matches only an equal datum *)
Lemma match_literal_datum : forall f lits q l d s,
  match_datum (S f) lits (PLit q l) d s =
  Ok (match d with DPrim q' _ => prim_eqb q q' | _ => false end, s).
Proof. intros. destruct d; reflexivity. Qed.

Lemma prim_eqb_eq : forall p q, prim_eqb p q = true <-> p = q.
Proof.
  intros p q; destruct p, q; cbn [prim_eqb]; split; intro H; try discriminate; try (injection H; intros; subst).
  - apply str_eqb_eq in H. now subst.
  - apply str_eqb_refl.
  - apply N.eqb_eq in H. now subst.
  - apply N.eqb_refl.
  - apply Bool.eqb_prop in H. now subst.
  - apply Bool.eqb_reflx.
  - apply Z.eqb_eq in H. now subst.
  - apply Z.eqb_refl.
  - apply andb_true_iff in H as [H1 H2]. apply Z.eqb_eq in H1, H2. now subst.
  - now rewrite !Z.eqb_refl.
  - apply str_eqb_eq in H. now subst.
  - apply str_eqb_refl.
Qed.

(** ** the ellipsis: a final [x ...] consumes the whole remaining run, in order *)

Lemma match_stream_S : forall f lits ps ds s multi, match_stream (S f) lits ps ds s multi =
  match ps, ds with
  | [], [] => Ok (true, s)
  | sp :: ps', [] =>
      match sp, multi with
      | PEllipsis _, Some _ => match_stream f lits ps' [] s multi
      | _, _ => Ok (false, s)
      end
  | [], _ :: _ => Ok (false, s)
  | sp :: ps', sd :: ds' =>
      do x <- match_datum f lits sp sd s ;;
      let '(b, s1) := x in
      if b then
        match sp with
        | PEllipsis l =>
            match multi with
            | Some mmp =>
                do y <- match_datum f lits mmp sd [] ;;
                let '(b2, fresh) := y in
                if b2 then
                  do s2 <- subst_push_all s1 fresh ;;
                  do z <- match_stream f lits ps ds' s2 (Some mmp) ;;
                  let '(b3, s3) := z in
                  if b3 then Ok (true, s3)
                  else match_stream f lits ps' ds' s3 (Some mmp)
                else Ok (false, s1)
            | None => lerr UnexpectedPattern l
            end
        | PIdent x _ =>
            if str_in x lits then match_stream f lits ps' ds' s1 None
            else match_stream f lits ps' ds' s1 (Some sp)
        | _ => match_stream f lits ps' ds' s1 (Some sp)
        end
      else Ok (false, s1)
  end.
Proof. reflexivity. Qed.

Lemma subst_get_insert_same : forall s x v, subst_get (subst_insert s x v) x = Some v.
Proof.
  induction s as [|[y w] r IH]; intros x v; cbn.
  - now rewrite str_eqb_refl.
  - destruct (str_eqb x y) eqn:E; cbn; rewrite E; [reflexivity|apply IH].
Qed.

Lemma subst_insert_insert : forall s x v v', subst_insert (subst_insert s x v) x v' = subst_insert s x v'.
Proof.
  induction s as [|[y w] r IH]; intros x v v'; cbn.
  - now rewrite str_eqb_refl.
  - destruct (str_eqb x y) eqn:E; cbn; rewrite E; [reflexivity|now rewrite IH].
Qed.

Lemma subst_insert_same : forall s x v, subst_get s x = Some v -> subst_insert s x v = s.
Proof.
  induction s as [|[y w] r IH]; intros x v H; cbn in *; [discriminate|].
  destruct (str_eqb x y) eqn:E.
  - injection H as ->. reflexivity.
  - now rewrite IH.
Qed.

(** with the table binding [x] to (first item, items so far), matching [...] against the
    remaining run appends the whole run, in order, and succeeds *)
Lemma ellipsis_run : forall lits x lx le, str_in x lits = false ->
  forall rest f s d0 acc,
  subst_get s x = Some (d0, acc) ->
  2 * length rest + 3 <= f ->
  match_stream f lits [PEllipsis le] rest s (Some (PIdent x lx)) =
  Ok (true, subst_insert s x (d0, acc ++ rest)).
Proof.
  intros lits x lx le NL rest. induction rest as [|d rest IH]; intros f s d0 acc HG HF.
  - destruct f as [|[|f]]; cbn in HF; try lia.
    rewrite match_stream_S. rewrite match_stream_S. rewrite app_nil_r.
    now rewrite (subst_insert_same _ _ _ HG).
  - destruct f as [|[|f]]; cbn [length] in HF; try lia.
    rewrite match_stream_S. cbn [match_datum bind]. rewrite NL. cbn [bind subst_push_all subst_insert].
    unfold subst_push. rewrite HG. cbn [bind].
    rewrite (IH (S f) _ d0 (acc ++ [d])); [|apply subst_get_insert_same|lia].
    cbn [bind]. rewrite subst_insert_insert, <- app_assoc. reflexivity.
Qed.

(** the same for a whole pattern list [x ...] matched against one or more items *)
Lemma variable_ellipsis_matches_run : forall lits x lx le d ds s, str_in x lits = false ->
  match_stream (2 * length ds + 5) lits [PIdent x lx; PEllipsis le] (d :: ds) s None =
  Ok (true, subst_insert s x (d, ds)).
Proof.
  intros lits x lx le d ds s NL.
  replace (2 * length ds + 5) with (S (S (2 * length ds + 3))) by lia.
  rewrite match_stream_S. rewrite (match_variable _ _ _ _ _ _ NL). cbn [bind]. rewrite NL.
  rewrite (ellipsis_run lits x lx le NL ds _ _ d []); [|apply subst_get_insert_same|lia].
  now rewrite subst_insert_insert.
Qed.

(** ** the template: an ellipsis sub-template is repeated once per matched item, in order *)

Lemma subst_items_from_var : forall x l s d0 vec n fuel,
  subst_get s x = Some (d0, vec) -> length vec + 2 <= fuel + n -> n <= length vec ->
  subst_items_from fuel (TId x l) s n = Ok (skipn n vec).
Proof.
  intros x l s d0 vec n fuel HG. revert n. induction fuel as [|f IH]; intros n HF Hn.
  - assert (n = length vec \/ False) by lia. lia.
  - cbn [subst_items_from].
    destruct f as [|f'].
    + assert (n = length vec) by lia. subst n. lia.
    + cbn [subst_item]. rewrite HG.
      destruct (nth_error vec n) as [d|] eqn:E.
      * assert (Hlt : n < length vec) by (apply nth_error_Some; congruence).
        destruct vec as [|v0 vr] eqn:EV; [cbn in Hlt; lia|]. rewrite <- EV in *.
        cbn [bind]. rewrite (IH (S n)) by lia. cbn [bind].
        f_equal. clear -E. revert n E. induction vec as [|a vec IHv]; intros [|n] E; cbn in *; try discriminate.
        -- now injection E as ->.
        -- now apply IHv.
      * assert (Hge : length vec <= n) by (now apply nth_error_None).
        assert (n = length vec) by lia. subst n. rewrite skipn_all.
        destruct vec; reflexivity.
Qed.

(** [(x ...)] in a template becomes the list of everything [x] matched, in order *)
Lemma substitute_variable_ellipsis : forall x lx l s d0 vec,
  subst_get s x = Some (d0, vec) ->
  substitute (length vec + 5) (TList [(TId x lx, true)] l) s = Ok [dlist (d0 :: vec)].
Proof.
  intros x lx l s d0 vec HG.
  replace (length vec + 5) with (S (S (length vec + 3))) by lia.
  cbn [substitute]. rewrite HG. cbn [bind].
  rewrite (subst_items_from_var x lx s d0 vec 0 _ HG) by lia. cbn [bind skipn app].
  rewrite app_nil_r. reflexivity.
Qed.
