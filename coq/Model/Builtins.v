(** Model of the native procedures of library/native/base.rs and write.rs (all but the
    transcendental functions), plus the harness's [tick]. [apply] re-enters the evaluator
    and lives in Eval.v. *)
From Coq Require Import ZArith NArith List Bool.
From RV Require Import Model.Common Model.Real32 Model.Num Model.Datum Model.Macro Model.Ast
  Model.Value Model.Equal Model.Print.
Import ListNotations.
Local Open Scope Z_scope.

(** the table of library_map(): name, number of fixed parameters, variadic *)
Definition s (l : list Z) : str := map Z.to_N l.
Definition builtin_table : list (str * (nat * bool)) := [
  (s [97;112;112;108;121], (1%nat, true));                       (* apply *)
  (s [99;97;114], (1%nat, false));                               (* car *)
  (s [99;100;114], (1%nat, false));                              (* cdr *)
  (s [101;113;118;63], (2%nat, false));                          (* eqv? *)
  (s [101;113;63], (2%nat, false));                              (* eq? *)
  (s [99;111;110;115], (2%nat, false));                          (* cons *)
  (s [98;111;111;108;101;97;110;63], (1%nat, false));            (* boolean? *)
  (s [99;104;97;114;63], (1%nat, false));                        (* char? *)
  (s [110;117;109;98;101;114;63], (1%nat, false));               (* number? *)
  (s [115;116;114;105;110;103;63], (1%nat, false));              (* string? *)
  (s [115;121;109;98;111;108;63], (1%nat, false));               (* symbol? *)
  (s [112;97;105;114;63], (1%nat, false));                       (* pair? *)
  (s [112;114;111;99;101;100;117;114;101;63], (1%nat, false));   (* procedure? *)
  (s [118;101;99;116;111;114;63], (1%nat, false));               (* vector? *)
  (s [110;111;116], (1%nat, false));                             (* not *)
  (s [98;111;111;108;101;97;110;61;63], (0%nat, true));          (* boolean=? *)
  (s [43], (0%nat, true)); (s [45], (1%nat, true)); (s [42], (0%nat, true)); (s [47], (1%nat, true));
  (s [61], (0%nat, true)); (s [60], (0%nat, true)); (s [60;61], (0%nat, true)); (s [62], (0%nat, true));
  (s [62;61], (0%nat, true));
  (s [109;105;110], (1%nat, true)); (s [109;97;120], (1%nat, true));
  (s [97;98;115], (1%nat, false)); (s [115;113;114;116], (1%nat, false));
  (s [101;120;112], (1%nat, false)); (s [108;110], (1%nat, false)); (s [108;111;103], (2%nat, false));
  (s [115;105;110], (1%nat, false)); (s [99;111;115], (1%nat, false)); (s [116;97;110], (1%nat, false));
  (s [97;115;105;110], (1%nat, false)); (s [97;99;111;115], (1%nat, false)); (s [97;116;97;110], (1%nat, false));
  (s [97;116;97;110;50], (2%nat, false));
  (s [102;108;111;111;114], (1%nat, false)); (s [99;101;105;108;105;110;103], (1%nat, false));
  (s [101;120;97;99;116], (1%nat, false));
  (s [102;108;111;111;114;45;113;117;111;116;105;101;110;116], (2%nat, false));
  (s [102;108;111;111;114;45;114;101;109;97;105;110;100;101;114], (2%nat, false));
  (s [110;101;119;108;105;110;101], (0%nat, false));
  (s [118;101;99;116;111;114], (0%nat, true));
  (s [109;97;107;101;45;118;101;99;116;111;114], (2%nat, false));
  (s [118;101;99;116;111;114;45;108;101;110;103;116;104], (1%nat, false));
  (s [118;101;99;116;111;114;45;114;101;102], (2%nat, false));
  (s [118;101;99;116;111;114;45;115;101;116;33], (3%nat, false))
].
Definition write_table : list (str * (nat * bool)) := [
  (s [100;105;115;112;108;97;121], (1%nat, false))               (* display *)
].
Definition tick_name : str := s [116;105;99;107].
Definition tick_table : list (str * (nat * bool)) := [ (tick_name, (2%nat, false)) ].

Definition builtin_arity (name : str) : option (nat * bool) :=
  alist_get (builtin_table ++ write_table ++ tick_table) name.

Definition display_fuel : nat := Nat.mul 100 100.
Definition type_err {A} : res A := err TypeMisMatch.

Definition expect_number (v : value) : res number :=
  match v with VNum n => Ok n | _ => type_err end.
Definition expect_integer (v : value) : res Z :=
  match v with VNum (NInt z) => Ok z | _ => type_err end.
Definition expect_boolean (v : value) : res bool :=
  match v with VBool b => Ok b | _ => type_err end.

(** eqv (also eq?) *)
Definition value_eqv (a b : value) : bool :=
  match a, b with
  | VVec m1 a1, VVec m2 a2 => Bool.eqb m1 m2 && Nat.eqb a1 a2
  | VNil, VNil => true
  | VNil, VPair _ _ | VPair _ _, VNil | VPair _ _, VPair _ _ => false
  | VNum x, VNum y => num_eqv x y
  | VBool x, VBool y => Bool.eqb x y
  | VChar x, VChar y => N.eqb x y
  | VStr x, VStr y => str_eqb x y
  | VSym x, VSym y => str_eqb x y
  | VProcU f1 d1 b1 _, VProcU f2 d2 b2 _ =>
      expr_eqb (ELambda f1 d1 b1 None) (ELambda f2 d2 b2 None)
  | VProcB x, VProcB y => str_eqb x y
  | VTransformer x, VTransformer y => transformer_eqb x y
  | VVoid, VVoid => true
  | _, _ => false
  end.

Fixpoint fold_num (f : number -> number -> res number) (acc : number) (args : list value) : res number :=
  match args with
  | [] => Ok acc
  | v :: r => do n <- expect_number v ;; do a <- f acc n ;; fold_num f a r
  end.

Definition okf (f : number -> number -> number) (a b : number) : res number := Ok (f a b).

(** typed_comparision! (after the repair: no early return) *)
Fixpoint cmp_chain (op : number -> number -> bool) (last : number) (args : list value) (acc : bool)
  : res bool :=
  match args with
  | [] => Ok acc
  | v :: r => do n <- expect_number v ;; cmp_chain op n r (acc && op last n)
  end.
Definition num_compare (op : number -> number -> bool) (args : list value) : res value :=
  match args with
  | [] => Ok (VBool true)
  | v :: r => do n <- expect_number v ;; do b <- cmp_chain op n r true ;; Ok (VBool b)
  end.
Fixpoint bool_chain (last : bool) (args : list value) (acc : bool) : res bool :=
  match args with
  | [] => Ok acc
  | v :: r => do b <- expect_boolean v ;; bool_chain b r (acc && Bool.eqb last b)
  end.

Definition arg1 (args : list value) : res value :=
  match args with v :: _ => Ok v | _ => Panic PBuiltinArg end.
Definition arg2 (args : list value) : res (value * value) :=
  match args with a :: b :: _ => Ok (a, b) | _ => Panic PBuiltinArg end.
Definition arg3 (args : list value) : res (value * value * value) :=
  match args with a :: b :: c :: _ => Ok (a, b, c) | _ => Panic PBuiltinArg end.

Definition test1 (args : list value) (f : value -> bool) : res value :=
  do v <- arg1 args ;; Ok (VBool (f v)).

Definition num1 (args : list value) (f : number -> res number) : res value :=
  do v <- arg1 args ;; do n <- expect_number v ;; do r <- f n ;; Ok (VNum r).

Definition unmodelled1 (args : list value) : res value :=
  do v <- arg1 args ;; do _ <- expect_number v ;; Panic PUnmodelled.
Definition unmodelled2 (args : list value) : res value :=
  do p <- arg2 args ;; let '(a, b) := p in
  do _ <- expect_number a ;; do _ <- expect_number b ;; Panic PUnmodelled.

Definition name_is (name : str) (l : list Z) : bool := str_eqb name (s l).

(** every builtin but apply. Returns the result and the new state (vectors, stdout, ticks) *)
Definition builtin_call (name : str) (args : list value) (st : state) : res value * state :=
  let pure (r : res value) := (r, st) in
  if name_is name [99;97;114] then   (* car *)
    pure (do v <- arg1 args ;; match v with VPair a _ => Ok a | _ => type_err end)
  else if name_is name [99;100;114] then   (* cdr *)
    pure (do v <- arg1 args ;; match v with VPair _ b => Ok b | _ => type_err end)
  else if name_is name [99;111;110;115] then   (* cons *)
    pure (do p <- arg2 args ;; let '(a, b) := p in Ok (VPair a b))
  else if name_is name [101;113;118;63] || name_is name [101;113;63] then
    pure (do p <- arg2 args ;; let '(a, b) := p in Ok (VBool (value_eqv a b)))
  else if name_is name [98;111;111;108;101;97;110;63] then
    pure (test1 args (fun v => match v with VBool _ => true | _ => false end))
  else if name_is name [99;104;97;114;63] then
    pure (test1 args (fun v => match v with VChar _ => true | _ => false end))
  else if name_is name [110;117;109;98;101;114;63] then
    pure (test1 args (fun v => match v with VNum _ => true | _ => false end))
  else if name_is name [115;116;114;105;110;103;63] then
    pure (test1 args (fun v => match v with VStr _ => true | _ => false end))
  else if name_is name [115;121;109;98;111;108;63] then
    pure (test1 args (fun v => match v with VSym _ => true | _ => false end))
  else if name_is name [112;97;105;114;63] then
    pure (test1 args (fun v => match v with VPair _ _ => true | _ => false end))
  else if name_is name [112;114;111;99;101;100;117;114;101;63] then
    pure (test1 args (fun v => match v with VProcU _ _ _ _ | VProcB _ => true | _ => false end))
  else if name_is name [118;101;99;116;111;114;63] then
    pure (test1 args (fun v => match v with VVec _ _ => true | _ => false end))
  else if name_is name [110;111;116] then
    pure (test1 args (fun v => match v with VBool false => true | _ => false end))
  else if name_is name [98;111;111;108;101;97;110;61;63] then   (* boolean=? *)
    pure (match args with
          | [] => Ok (VBool true)
          | v :: r => do b <- expect_boolean v ;; do x <- bool_chain b r true ;; Ok (VBool x)
          end)
  else if name_is name [43] then
    pure (do n <- fold_num (okf num_add) (NInt 0) args ;; Ok (VNum n))
  else if name_is name [42] then
    pure (do n <- fold_num (okf num_mul) (NInt 1) args ;; Ok (VNum n))
  else if name_is name [45] then
    pure (do v <- arg1 args ;; do first <- expect_number v ;;
          match tl args with
          | [] => Ok (VNum (num_sub (NInt 0) first))
          | w :: r => do n2 <- expect_number w ;;
                      do n <- fold_num (okf num_sub) (num_sub first n2) r ;; Ok (VNum n)
          end)
  else if name_is name [47] then
    pure (do v <- arg1 args ;; do first <- expect_number v ;;
          match tl args with
          | [] => do q <- num_div (NInt 1) first ;; Ok (VNum q)
          | w :: r => do n2 <- expect_number w ;; do q <- num_div first n2 ;;
                      do n <- fold_num num_div q r ;; Ok (VNum n)
          end)
  else if name_is name [61] then pure (num_compare num_eqb args)
  else if name_is name [60] then pure (num_compare num_ltb args)
  else if name_is name [60;61] then pure (num_compare num_leb args)
  else if name_is name [62] then pure (num_compare num_gtb args)
  else if name_is name [62;61] then pure (num_compare num_geb args)
  else if name_is name [109;97;120] then
    pure (do v <- arg1 args ;; do first <- expect_number v ;;
          do n <- fold_num (okf num_max2) first (tl args) ;; Ok (VNum n))
  else if name_is name [109;105;110] then
    pure (do v <- arg1 args ;; do first <- expect_number v ;;
          do n <- fold_num (okf num_min2) first (tl args) ;; Ok (VNum n))
  else if name_is name [97;98;115] then pure (num1 args (fun n => Ok (num_abs n)))
  else if name_is name [115;113;114;116] then pure (num1 args (fun n => Ok (num_sqrt n)))
  else if name_is name [102;108;111;111;114] then pure (num1 args (fun n => Ok (num_floor n)))
  else if name_is name [99;101;105;108;105;110;103] then pure (num1 args (fun n => Ok (num_ceiling n)))
  else if name_is name [101;120;97;99;116] then pure (num1 args num_exact)
  else if name_is name [102;108;111;111;114;45;113;117;111;116;105;101;110;116] then
    pure (do p <- arg2 args ;; let '(a, b) := p in
          do x <- expect_number a ;; do y <- expect_number b ;;
          do r <- num_floor_quotient x y ;; Ok (VNum r))
  else if name_is name [102;108;111;111;114;45;114;101;109;97;105;110;100;101;114] then
    pure (do p <- arg2 args ;; let '(a, b) := p in
          do x <- expect_number a ;; do y <- expect_number b ;;
          do r <- num_floor_remainder x y ;; Ok (VNum r))
  else if name_is name [101;120;112] || name_is name [108;110] || name_is name [115;105;110]
       || name_is name [99;111;115] || name_is name [116;97;110] || name_is name [97;115;105;110]
       || name_is name [97;99;111;115] || name_is name [97;116;97;110] then pure (unmodelled1 args)
  else if name_is name [108;111;103] || name_is name [97;116;97;110;50] then pure (unmodelled2 args)
  else if name_is name [110;101;119;108;105;110;101] then (Ok VVoid, add_out st [10%N])
  else if name_is name [100;105;115;112;108;97;121] then   (* display *)
    match arg1 args with
    | Ok v => match display display_fuel st v with
              | Some text => (Ok VVoid, add_out st text)
              | None => (Panic PUnmodelled, st)
              end
    | other => pure other
    end
  else if name_is name [118;101;99;116;111;114] then   (* vector *)
    let '(a, st') := alloc_vector st args in (Ok (VVec true a), st')
  else if name_is name [109;97;107;101;45;118;101;99;116;111;114] then   (* make-vector *)
    match (do p <- arg2 args ;; let '(kv, fill) := p in do k <- expect_integer kv ;; Ok (k, fill)) with
    | Ok (k, fill) =>
        if (k <? 0) then pure (err NegativeLength)
        else if (1000000 <? k) then pure (Panic PUnmodelled)
        else let '(a, st') := alloc_vector st (repeat fill (Z.to_nat k)) in (Ok (VVec true a), st')
    | Err k l => pure (Err k l)
    | Panic x => pure (Panic x)
    | OutOfFuel => pure OutOfFuel
    end
  else if name_is name [118;101;99;116;111;114;45;108;101;110;103;116;104] then   (* vector-length *)
    pure (do v <- arg1 args ;;
          match v with
          | VVec _ a => match nth_error (vectors st) a with
                        | Some cells => Ok (VNum (NInt (Z.of_nat (length cells))))
                        | None => Panic PUnmodelled
                        end
          | _ => type_err
          end)
  else if name_is name [118;101;99;116;111;114;45;114;101;102] then   (* vector-ref *)
    pure (do p <- arg2 args ;; let '(v, kv) := p in
          match v with
          | VVec _ a =>
              do k <- expect_integer kv ;;
              match nth_error (vectors st) a with
              | Some cells =>
                  if (k <? 0) then err VectorIndexOutOfBounds
                  else match nth_error cells (Z.to_nat k) with
                       | Some x => Ok x
                       | None => err VectorIndexOutOfBounds
                       end
              | None => Panic PUnmodelled
              end
          | _ => type_err
          end)
  else if name_is name [118;101;99;116;111;114;45;115;101;116;33] then   (* vector-set! *)
    match arg3 args with
    | Ok (v, kv, obj) =>
        match v with
        | VVec m a =>
            match expect_integer kv with
            | Ok k =>
                if negb m then pure (err RequiresMutable)
                else match nth_error (vectors st) a with
                     | Some cells =>
                         if (k <? 0) || (Z.of_nat (length cells) <=? k)%Z
                         then pure (err VectorIndexOutOfBounds)
                         else (Ok VVoid,
                               set_vectors st (list_update (vectors st) a (list_update cells (Z.to_nat k) obj)))
                     | None => pure (Panic PUnmodelled)
                     end
            | Err k l => pure (Err k l)
            | Panic x => pure (Panic x)
            | OutOfFuel => pure OutOfFuel
            end
        | _ => pure type_err
        end
    | Err k l => pure (Err k l)
    | Panic x => pure (Panic x)
    | OutOfFuel => pure OutOfFuel
    end
  else if str_eqb name tick_name then
    match arg2 args with
    | Ok (VNum (NInt id), v) => (Ok v, add_tick st id)
    | Ok _ => pure type_err
    | Err k l => pure (Err k l)
    | Panic x => pure (Panic x)
    | OutOfFuel => pure OutOfFuel
    end
  else pure (Panic PUnmodelled).
