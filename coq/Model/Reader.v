(** Model of the datum reader of src/parser/parser.rs: Parser::{advance, current_datum,
    current_list_or_pair, vector, repeat, datum, parse_quoted}. Tokens are pulled lazily
    from the lexer, so a lexical error is met only when the reader reaches it. *)
From Coq Require Import ZArith NArith List Bool.
From RV Require Import Model.Common Model.Datum Model.Lexer.
Import ListNotations.

Record pst := {
  lrest : list char;               (* characters not yet lexed *)
  lpos : pos;                      (* lexer cursor *)
  pcur : option (token * pos);     (* Parser::current *)
  ploc : loc                       (* Parser::location *)
}.

Definition p_init (text : list char) : pst :=
  {| lrest := text; lpos := (1, 1)%N; pcur := None; ploc := None |}.

(** Parser::advance(1) *)
Definition p_advance (s : pst) : res pst :=
  do x <- lex_next (lex_fuel (lrest s)) (lrest s) (lpos s) ;;
  let '(o, r, p) := x in
  Ok {| lrest := r; lpos := p; pcur := o;
        ploc := match o with Some (_, l) => Some l | None => None end |}.

(** Parser::peek_next_token *)
Definition p_peek (s : pst) : res (option token) :=
  do x <- lex_next (lex_fuel (lrest s)) (lrest s) (lpos s) ;;
  let '(o, _, _) := x in Ok (option_map fst o).

(** Parser::advance_unwrap(1) *)
Definition p_advance_unwrap (s : pst) : res (token * pos * pst) :=
  let l := ploc s in
  do s' <- p_advance s ;;
  match pcur s' with
  | Some (t, tl) => Ok (t, tl, s')
  | None => lerr UnexpectedEnd l
  end.

Definition take_cur (s : pst) : pst :=
  {| lrest := lrest s; lpos := lpos s; pcur := None; ploc := ploc s |}.

Fixpoint build_cdr (els : list datum) (tail : option datum) : datum :=
  match els with
  | [] => match tail with Some t => t | None => DNil None end
  | x :: xs => DCons x (build_cdr xs tail) None
  end.

Definition build_list (els : list datum) (tail : option datum) (l : loc) : datum :=
  match els with
  | [] => DNil l
  | x :: xs => DCons x (build_cdr xs tail) l
  end.

Definition quote_form (inner : datum) (l : loc) : datum :=
  DCons (DSym [113; 117; 111; 116; 101]%N l) (DCons inner (DNil None) None) l.

(** current_datum / datum / current_list_or_pair / repeat, on one fuel.
    [read_current]: Parser::current_datum on a state whose current token is present.
    [read_datum]:   Parser::datum.
    [read_list]:    the loop of current_list_or_pair, [els] reversed, [period] = encounter_period.
    [read_vec]:     repeat(Self::datum), [els] reversed. *)
Fixpoint read_current (fuel : nat) (s : pst) : res (option datum * pst) :=
  match fuel with
  | O => OutOfFuel
  | S f =>
      match pcur s with
      | None => Ok (None, s)
      | Some (t, tl) =>
          let s0 := take_cur s in
          match t with
          | TPrim p => Ok (Some (DPrim p (Some tl)), s0)
          | TIdent a => Ok (Some (DSym a (Some tl)), s0)
          | TLParen => do x <- read_list f s0 (ploc s0) [] false ;; let '(d, s1) := x in Ok (Some d, s1)
          | TRParen => lerr UnmatchedParentheses (Some tl)
          | TVecOpen =>
              do x <- read_vec f s0 [] ;;
              let '(v, s1) := x in Ok (Some (DVec v (ploc s1)), s1)
          | TQuote =>
              do s1 <- p_advance s0 ;;
              do x <- read_quoted f s1 ;; let '(d, s2) := x in Ok (Some d, s2)
          | _ => lerr UnexpectedToken (Some tl)
          end
      end
  end

with read_quoted (fuel : nat) (s : pst) : res (datum * pst) :=
  match fuel with
  | O => OutOfFuel
  | S f =>
      let ql := ploc s in
      do x <- read_datum f s ;;
      let '(inner, s1) := x in Ok (quote_form inner ql, s1)
  end

with read_datum (fuel : nat) (s : pst) : res (datum * pst) :=
  match fuel with
  | O => OutOfFuel
  | S f =>
      let l := ploc s in
      match pcur s with
      | None => lerr UnexpectedEnd l
      | Some (t, _) =>
          match t with
          | TLParen => read_list f s (ploc s) [] false
          | TVecOpen => do x <- read_vec f s [] ;; let '(v, s1) := x in Ok (DVec v l, s1)
          | TIdent a => Ok (DSym a l, s)
          | TPrim p => Ok (DPrim p l, s)
          | TQuote => do s1 <- p_advance s ;; read_quoted f s1
          | _ => lerr UnexpectedToken l
          end
      end
  end

with read_list (fuel : nat) (s : pst) (list_loc : loc) (els : list datum) (period : bool)
  : res (datum * pst) :=
  match fuel with
  | O => OutOfFuel
  | S f =>
      do x <- p_advance_unwrap s ;;
      let '(t, tl, s1) := x in
      match t with
      | TPeriod =>
          if period then lerr UnexpectedToken (Some tl)
          else read_list f s1 list_loc els true
      | TRParen => Ok (build_list (rev els) None list_loc, s1)
      | _ =>
          do y <- read_current f s1 ;;
          let '(o, s2) := y in
          match o with
          | None => err UnexpectedEnd
          | Some element =>
              match els with
              | [] => read_list f s2 list_loc [element] period
              | _ :: _ =>
                  if period then
                    (* *cdr = element; expect_next_nth(1, RightParen) *)
                    do z <- p_advance_unwrap s2 ;;
                    let '(t2, _, s3) := z in
                    if token_eqb t2 TRParen
                    then Ok (build_list (rev els) (Some element) list_loc, s3)
                    else lerr TokenMisMatch (ploc s3)
                  else read_list f s2 list_loc (element :: els) period
              end
          end
      end
  end

with read_vec (fuel : nat) (s : pst) (els : list datum) : res (list datum * pst) :=
  match fuel with
  | O => OutOfFuel
  | S f =>
      do o <- p_peek s ;;
      match o with
      | Some TRParen => do s1 <- p_advance s ;; Ok (rev els, s1)
      | None => lerr UnexpectedEnd (ploc s)
      | Some _ =>
          do s1 <- p_advance s ;;
          do x <- read_datum f s1 ;;
          let '(d, s2) := x in read_vec f s2 (d :: els)
      end
  end.

Definition read_fuel (s : pst) : nat := 4 * S (length (lrest s)) + 8.

(** Parser::parse up to the datum: advance(1), then current_datum *)
Definition read_next (s : pst) : res (option datum * pst) :=
  do s1 <- p_advance s ;;
  read_current (read_fuel s) s1.

(** all the data of a text (reader correspondence and theorems) *)
Fixpoint read_all (fuel : nat) (s : pst) : res (list datum) :=
  match fuel with
  | O => OutOfFuel
  | S f =>
      do x <- read_next s ;;
      let '(o, s1) := x in
      match o with
      | None => Ok []
      | Some d => do ds <- read_all f s1 ;; Ok (d :: ds)
      end
  end.

Definition read_text (text : list char) : res (list datum) :=
  read_all (S (length text)) (p_init text).
