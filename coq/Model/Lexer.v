(** Model of src/parser/lexer.rs (after the literal repairs). The location attached to a
    token is the cursor position after its last character, as in Lexer::next. *)
From Coq Require Import ZArith NArith List Bool.
From RV Require Import Model.Common Model.Datum.
Import ListNotations.
Local Open Scope N_scope.

(** characters *)
Definition c_tab := 9. Definition c_nl := 10. Definition c_cr := 13. Definition c_space := 32.
Definition c_dquote := 34. Definition c_hash := 35. Definition c_quote := 39.
Definition c_lparen := 40. Definition c_rparen := 41. Definition c_plus := 43. Definition c_comma := 44.
Definition c_minus := 45. Definition c_dot := 46. Definition c_slash := 47.
Definition c_0 := 48. Definition c_8 := 56. Definition c_9 := 57.
Definition c_semi := 59. Definition c_at := 64. Definition c_backslash := 92.
Definition c_backquote := 96. Definition c_bar := 124.
Definition c_a := 97. Definition c_b := 98. Definition c_e := 101. Definition c_f := 102.
Definition c_n := 110. Definition c_r := 114. Definition c_t := 116. Definition c_u := 117.
Definition c_x := 120.

Definition is_ws (c : char) : bool :=
  (c =? c_space) || (c =? c_tab) || (c =? c_nl) || (c =? c_cr).
Definition is_digit (c : char) : bool := (c_0 <=? c) && (c <=? c_9).
(** Lexer::test_delimiter *)
Definition is_delimiter (c : char) : bool :=
  is_ws c || (c =? c_lparen) || (c =? c_rparen) || (c =? c_dquote) || (c =? c_semi) || (c =? c_bar).
(** is_identifier_initial: a-z A-Z ! $ % & * / : < = > ? @ ^ _ ~ *)
Definition is_initial (c : char) : bool :=
  ((97 <=? c) && (c <=? 122)) || ((65 <=? c) && (c <=? 90))
  || (c =? 33) || (c =? 36) || (c =? 37) || (c =? 38) || (c =? 42) || (c =? 47) || (c =? 58)
  || (c =? 60) || (c =? 61) || (c =? 62) || (c =? 63) || (c =? 64) || (c =? 94) || (c =? 95)
  || (c =? 126).
(** the characters that continue an identifier *)
Definition is_subsequent (c : char) : bool :=
  is_initial c || is_digit c || (c =? c_plus) || (c =? c_minus) || (c =? c_dot) || (c =? c_at).

Definition pos := (N * N)%type.
Record lexst := { rest : list char; cur : pos }.
Definition adv (c : char) (p : pos) : pos :=
  if c =? c_nl then (fst p + 1, 1) else (fst p, snd p + 1).
Definition lex_init (text : list char) : lexst := {| rest := text; cur := (1, 1) |}.

Definition test_delimiter {A} (p : pos) (c : char) (k : res A) : res A :=
  if is_delimiter c then k else lerr ExpectSomething (Some p).

(** consume the characters satisfying [f]; returns them, the rest and the position *)
Fixpoint take_while (f : char -> bool) (l : list char) (p : pos) : list char * list char * pos :=
  match l with
  | c :: r => if f c then let '(a, r', p') := take_while f r (adv c p) in (c :: a, r', p')
              else ([], l, p)
  | [] => ([], [], p)
  end.

(** identifier tail shared by normal_identifier and dot_subsequent's loop: subsequent
    characters, then a delimiter or (when [eof_ok]) the end of input *)
Definition ident_tail (l : list char) (p : pos) : list char * list char * pos :=
  take_while is_subsequent l p.

Fixpoint digits_value (ds : list char) (acc : Z) : Z :=
  match ds with
  | [] => acc
  | d :: r => digits_value r (acc * 10 + Z.of_N (d - c_0))%Z
  end.

(** str::parse::<i32> of [sign] digits* *)
Definition parse_i32 (lit : list char) : option Z :=
  let '(neg, ds) := match lit with
                    | c :: r => if c =? c_minus then (true, r) else if c =? c_plus then (false, r) else (false, lit)
                    | [] => (false, [])
                    end in
  match ds with
  | [] => None
  | _ =>
      if forallb is_digit ds then
        let v := digits_value ds 0 in
        let v := if neg then (- v)%Z else v in
        if ((-2147483648 <=? v) && (v <=? 2147483647))%Z then Some v else None
      else None
  end.

(** validity of a decimal literal for str::parse::<f64>: some mantissa digit, and some
    exponent digit when there is an exponent *)
Definition split_at_char (c : char) (l : list char) : list char * option (list char) :=
  (fix go (l : list char) : list char * option (list char) :=
     match l with
     | [] => ([], None)
     | x :: r => if x =? c then ([], Some r) else let '(a, b) := go r in (x :: a, b)
     end) l.

Definition strip_sign (l : list char) : bool * list char :=
  match l with
  | c :: r => if c =? c_minus then (true, r) else if c =? c_plus then (false, r) else (false, l)
  | [] => (false, [])
  end.

(** decomposition of a real literal: sign, integer digits, fraction digits, exponent *)
Definition real_parts (lit : list char) : option (bool * list char * list char * Z) :=
  let '(neg, body) := strip_sign lit in
  let '(mant, ex) := split_at_char c_e body in
  let '(ip, fp) := split_at_char c_dot mant in
  let fp := match fp with Some f => f | None => [] end in
  if forallb is_digit ip && forallb is_digit fp && negb (Nat.eqb (length ip + length fp) 0) then
    match ex with
    | None => Some (neg, ip, fp, 0%Z)
    | Some e =>
        let '(eneg, eds) := strip_sign e in
        match eds with
        | [] => None
        | _ => if forallb is_digit eds then
                 let v := digits_value eds 0 in Some (neg, ip, fp, if eneg then (- v)%Z else v)
               else None
        end
    end
  else None.

Definition real_token (lit : list char) (p : pos) : res token :=
  match real_parts lit with
  | Some _ => Ok (TPrim (PReal lit))
  | None => lerr UnrecognizedToken (Some p)
  end.

(** after the digits of an exponent or a denominator: a delimiter or the end *)
Definition peek_delim {A} (l : list char) (p : pos) (k : res A) : res A :=
  match l with
  | c :: _ => test_delimiter p c k
  | [] => k
  end.

(** number_suffix: the 'e' has been peeked *)
Definition number_suffix (lit : list char) (l : list char) (p : pos)
  : res (list char * list char * pos) :=
  match l with
  | e :: r =>
      let p := adv e p in
      let lit := lit ++ [c_e] in
      let '(lit, r, p) :=
        match r with
        | s :: r' => if (s =? c_plus) || (s =? c_minus) then (lit ++ [s], r', adv s p) else (lit, r, p)
        | [] => (lit, r, p)
        end in
      let '(ds, r, p) := take_while is_digit r p in
      peek_delim r p (Ok (lit ++ ds, r, p))
  | [] => Ok (lit, l, p)
  end.

(** real: the '.' has been peeked *)
Definition real_tail (lit : list char) (l : list char) (p : pos)
  : res (list char * list char * pos) :=
  match l with
  | d :: r =>
      let p := adv d p in
      let lit := lit ++ [c_dot] in
      match r with
      | [] => Ok (lit, r, p)
      | nc :: _ =>
          if nc =? c_e then number_suffix lit r p
          else if is_digit nc then
            let '(ds, r, p) := take_while is_digit r p in
            let lit := lit ++ ds in
            match r with
            | [] => Ok (lit, r, p)
            | nnc :: _ => if nnc =? c_e then number_suffix lit r p
                          else test_delimiter p nnc (Ok (lit, r, p))
            end
          else test_delimiter p nc (Ok (lit, r, p))
      end
  | [] => Ok (lit, l, p)
  end.

(** number(): [first] is the current character (a digit or a sign) *)
Definition lex_number (first : char) (l : list char) (p : pos) : res (token * list char * pos) :=
  let '(ds, r, p) := take_while is_digit l p in
  let lit := first :: ds in
  match r with
  | [] =>
      match parse_i32 lit with
      | Some v => Ok (TPrim (PInt v), r, p)
      | None => lerr UnrecognizedToken (Some p)
      end
  | nc :: r' =>
      if nc =? c_e then
        do x <- number_suffix lit r p ;;
        let '(lit, r, p) := x in
        do t <- real_token lit p ;; Ok (t, r, p)
      else if nc =? c_dot then
        do x <- real_tail lit r p ;;
        let '(lit, r, p) := x in
        do t <- real_token lit p ;; Ok (t, r, p)
      else if nc =? c_slash then
        let p := adv nc p in
        let '(den, r, p) := take_while is_digit r' p in
        peek_delim r p
          (match parse_i32 lit with
           | None => lerr UnrecognizedToken (Some p)
           | Some n =>
               match parse_i32 den with
               | None => lerr UnrecognizedToken (Some p)
               | Some 0%Z => lerr RationalDivideByZero (Some p)
               | Some d => Ok (TPrim (PRat n d), r, p)
               end
           end)
      else
        test_delimiter p nc
          (match parse_i32 lit with
           | Some v => Ok (TPrim (PInt v), r, p)
           | None => lerr UnrecognizedToken (Some p)
           end)
  end.

(** normal_identifier *)
Definition lex_normal_ident (first : char) (l : list char) (p : pos) : res (token * list char * pos) :=
  let '(cs, r, p) := ident_tail l p in
  peek_delim r p (Ok (TIdent (first :: cs), r, p)).

(** dot_subsequent *)
Definition dot_subsequent (ident : list char) (l : list char) (p : pos)
  : res (list char * list char * pos) :=
  match l with
  | [] => Ok (ident, l, p)
  | c :: _ =>
      if (c =? c_plus) || (c =? c_minus) || (c =? c_dot) || (c =? c_at) || is_initial c then
        let '(cs, r, p) := ident_tail l p in
        match r with
        | [] => lerr InvalidIdentifier (Some p)
        | nc :: _ => test_delimiter p nc (Ok (ident ++ cs, r, p))
        end
      else test_delimiter p c (Ok (ident, l, p))
  end.

(** percular_identifier: [first] is '+', '-' or '.' *)
Definition lex_peculiar (first : char) (l : list char) (p : pos) : res (token * list char * pos) :=
  do x <- dot_subsequent [first] l p ;;
  let '(id, r, p) := x in Ok (TIdent id, r, p).

Fixpoint lex_quoted_ident (l : list char) (p : pos) (acc : list char) : res (token * list char * pos) :=
  match l with
  | [] => lerr ImcompleteQuotedIdent (Some p)
  | c :: r => if c =? c_bar then Ok (TIdent (rev acc), r, adv c p)
              else lex_quoted_ident r (adv c p) (c :: acc)
  end.

Fixpoint lex_string (fuel : nat) (l : list char) (p : pos) (acc : list char)
  : res (token * list char * pos) :=
  match fuel with
  | O => OutOfFuel
  | S f =>
      match l with
      | [] => lerr UnexpectedEnd (Some p)
      | c :: r =>
          let p := adv c p in
          if c =? c_dquote then Ok (TPrim (PStr (rev acc)), r, p)
          else if c =? c_backslash then
            match r with
            | [] => lerr UnexpectedEnd (Some p)
            | ec :: r' =>
                let p := adv ec p in
                if ec =? c_a then lex_string f r' p (7 :: acc)
                else if ec =? c_b then lex_string f r' p (8 :: acc)
                else if ec =? c_t then lex_string f r' p (9 :: acc)
                else if ec =? c_n then lex_string f r' p (10 :: acc)
                else if ec =? c_r then lex_string f r' p (13 :: acc)
                else if ec =? c_dquote then lex_string f r' p (c_dquote :: acc)
                else if ec =? c_backslash then lex_string f r' p (c_backslash :: acc)
                else if ec =? c_bar then lex_string f r' p (c_bar :: acc)
                else if ec =? c_x then lex_string f r' p acc
                else if ec =? c_space then lex_string f r' p acc
                else lerr UnknownEscape (Some p)
            end
          else lex_string f r p (c :: acc)
      end
  end.

Definition not_eol (c : char) : bool := negb ((c =? c_nl) || (c =? c_cr)).

(** try_next: the next token with the cursor position after it; [None] at the end *)
Fixpoint lex_next (fuel : nat) (l : list char) (p : pos) : res (option (token * pos) * list char * pos) :=
  match fuel with
  | O => OutOfFuel
  | S f =>
      match l with
      | [] => Ok (None, [], p)
      | c :: r =>
          let p := adv c p in
          let tok (t : token) := Ok (Some (t, p), r, p) in
          let sub (x : res (token * list char * pos)) :=
            do y <- x ;; let '(t, r', p') := y in Ok (Some (t, p'), r', p') in
          if is_ws c then
            let '(_, r', p') := take_while is_ws r p in lex_next f r' p'
          else if c =? c_semi then
            let '(_, r', p') := take_while not_eol r p in lex_next f r' p'
          else if c =? c_lparen then tok TLParen
          else if c =? c_rparen then tok TRParen
          else if c =? c_hash then
            match r with
            | [] => lerr UnexpectedEnd (Some p)
            | cn :: r2 =>
                let p2 := adv cn p in
                if cn =? c_lparen then Ok (Some (TVecOpen, p2), r2, p2)
                else if cn =? c_t then Ok (Some (TPrim (PBool true), p2), r2, p2)
                else if cn =? c_f then Ok (Some (TPrim (PBool false), p2), r2, p2)
                else if cn =? c_backslash then
                  match r2 with
                  | [] => lerr UnexpectedEnd (Some p2)
                  | cnn :: r3 => let p3 := adv cnn p2 in Ok (Some (TPrim (PChar cnn), p3), r3, p3)
                  end
                else if cn =? c_u then
                  match r2 with
                  | [] => lerr UnrecognizedToken (Some p2)
                  | c3 :: r3 =>
                      let p3 := adv c3 p2 in
                      if c3 =? c_8 then
                        match r3 with
                        | [] => lerr UnrecognizedToken (Some p3)
                        | c4 :: r4 =>
                            let p4 := adv c4 p3 in
                            if c4 =? c_lparen then Ok (Some (TByteVecOpen, p4), r4, p4)
                            else lerr UnrecognizedToken (Some p4)
                        end
                      else lerr UnrecognizedToken (Some p3)
                  end
                else lerr UnrecognizedToken (Some p2)
            end
          else if c =? c_quote then tok TQuote
          else if c =? c_backquote then tok TQuasi
          else if c =? c_comma then
            match r with
            | [] => Ok (None, r, p)
            | nc :: r2 => if nc =? c_at then let p2 := adv nc p in Ok (Some (TUnquoteSplicing, p2), r2, p2)
                          else tok TUnquote
            end
          else if c =? c_dot then
            match r with
            | [] => tok TPeriod
            | nc :: _ => if is_delimiter nc then tok TPeriod else sub (lex_peculiar c r p)
            end
          else if (c =? c_plus) || (c =? c_minus) then
            match r with
            | nc :: _ => if is_digit nc || (nc =? c_dot) then sub (lex_number c r p)
                         else sub (lex_peculiar c r p)
            | [] => sub (lex_peculiar c r p)
            end
          else if c =? c_dquote then sub (lex_string (S (length r)) r p [])
          else if is_digit c then sub (lex_number c r p)
          else if c =? c_bar then sub (lex_quoted_ident r p [])
          else sub (lex_normal_ident c r p)
      end
  end.

Definition lex_fuel (l : list char) : nat := S (length l).

(** the whole token stream (used by the lexer correspondence and the lexer theorems) *)
Fixpoint lex_all (fuel : nat) (l : list char) (p : pos) : res (list (token * pos)) :=
  match fuel with
  | O => OutOfFuel
  | S f =>
      do x <- lex_next (lex_fuel l) l p ;;
      let '(o, r, p') := x in
      match o with
      | None => Ok []
      | Some tp => do ts <- lex_all f r p' ;; Ok (tp :: ts)
      end
  end.

Definition lex_text (text : list char) : res (list (token * pos)) :=
  lex_all (S (length text)) text (1, 1).
