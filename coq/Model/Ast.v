(** The AST of src/parser/parser.rs (Expression, Statement, import sets, libraries). *)
From Coq Require Import ZArith NArith List Bool.
From RV Require Import Model.Common Model.Datum Model.Macro.
Import ListNotations.

(** ParameterFormals after validation: fixed names and an optional rest name *)
Record formals := { f_fixed : list str; f_rest : option str }.

Inductive expr :=
  | ESym (s : str) (l : loc)
  | EPrim (p : prim) (l : loc)
  | ESet (x : str) (e : expr) (l : loc)
  | ELambda (fm : formals) (defs : list (str * expr * loc)) (body : list expr) (l : loc)
  | ECall (f : expr) (args : list expr) (l : loc)
  | EIf (c t : expr) (e : option expr) (l : loc)
  | EQuote (d : datum) (l : loc)
  | EDatum (d : datum) (l : loc).

Definition eloc (e : expr) : loc :=
  match e with
  | ESym _ l | EPrim _ l | ESet _ _ l | ELambda _ _ _ l | ECall _ _ l | EIf _ _ _ l
  | EQuote _ l | EDatum _ l => l
  end.

Inductive libname_elem := LIdent (s : str) | LInt (n : Z).
Definition libname := list libname_elem.

Definition libname_elem_eqb (a b : libname_elem) : bool :=
  match a, b with
  | LIdent x, LIdent y => str_eqb x y
  | LInt x, LInt y => Z.eqb x y
  | _, _ => false
  end.
Fixpoint libname_eqb (a b : libname) : bool :=
  match a, b with
  | [], [] => true
  | x :: a', y :: b' => libname_elem_eqb x y && libname_eqb a' b'
  | _, _ => false
  end.

Inductive import_set :=
  | IDirect (n : libname) (l : loc)
  | IOnly (s : import_set) (ids : list str) (l : loc)
  | IExcept (s : import_set) (ids : list str) (l : loc)
  | IPrefix (s : import_set) (p : str) (l : loc)
  | IRename (s : import_set) (rn : list (str * str)) (l : loc).

Inductive export_spec := XDirect (x : str) (l : loc) | XRename (from to : str) (l : loc).

Inductive stmt :=
  | SImport (sets : list import_set) (l : loc)
  | SDef (x : str) (e : expr) (l : loc)
  | SSyntaxDef (kw : str) (t : transformer) (l : loc)
  | SExpr (e : expr)
  | SLibrary (n : libname) (decls : list libdecl) (l : loc)
with libdecl :=
  | LDImport (sets : list import_set) (l : loc)
  | LDExport (specs : list export_spec) (l : loc)
  | LDBegin (body : list stmt) (l : loc).

Definition stmt_loc (s : stmt) : loc :=
  match s with
  | SImport _ l | SDef _ _ l | SSyntaxDef _ _ l | SLibrary _ _ l => l
  | SExpr e => eloc e
  end.
