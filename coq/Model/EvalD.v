(** Depth-instrumented copy of the evaluator of Model/Eval.v: the same functions, clause for
    clause, threading the counter of the verification hook src/verif.rs (nesting depth of the
    evaluator's Rust calls -- eval_expression, eval_tail_expression, apply_scheme_procedure,
    apply_procedure, the builtin apply -- and its running maximum). An iteration of the
    trampoline loop does not touch the counter. Used by C02. *)
From Coq Require Import ZArith NArith List Bool.
From RV Require Import Model.Common Model.Real32 Model.Num Model.Datum Model.Lexer Model.Macro Model.Ast
  Model.Value Model.Builtins Model.Eval.
Import ListNotations.

Definition dstate := (nat * nat)%type.        (* current depth, maximal depth *)
Definition dres (A : Type) := (res A * state * dstate)%type.

Definition denter (d : dstate) : dstate := (S (fst d), Nat.max (snd d) (S (fst d))).
Definition dleave (d : dstate) : dstate := (pred (fst d), snd d).

(** the RAII guard of the hook *)
Definition dguard {A} (d : dstate) (k : dstate -> dres A) : dres A :=
  let '(r, st, d') := k (denter d) in (r, st, dleave d').

Definition dbind {A B} (r : dres A) (f : A -> state -> dstate -> dres B) : dres B :=
  match r with
  | (Ok a, st, d) => f a st d
  | (Err k l, st, d) => (Err k l, st, d)
  | (Panic x, st, d) => (Panic x, st, d)
  | (OutOfFuel, st, d) => (OutOfFuel, st, d)
  end.

Notation "'dod' ( x , st , d ) <- r ;; k" := (dbind r (fun x st d => k))
  (at level 200, x pattern, st name, d name, r at level 100, k at level 200, right associativity).

Definition dlift {A} (r : eres A) (d : dstate) : dres A := let '(x, st) := r in (x, st, d).

Fixpoint deval_expr (fuel : nat) (e : expr) (env : nat) (st : state) (d : dstate) {struct fuel} : dres value :=
  match fuel with
  | O => (OutOfFuel, st, d)
  | S f =>
      dguard d (fun d =>
      match e with
      | EPrim p _ => (eval_primitive p, st, d)
      | EDatum q _ => dlift (read_literal q st) d
      | EQuote q _ => dlift (read_literal q st) d
      | ECall fe args _ =>
          dod (first, st1, d1) <- deval_expr f fe env st d ;;
          let '(rargs, st2, d2) := deval_args f args env st1 d1 in
          match first with
          | VProcU _ _ _ _ | VProcB _ =>
              dod (vs, st3, d3) <- (rargs, st2, d2) ;; dapply_proc f first vs env st3 d3
          | _ => match rargs with
                 | OutOfFuel => (OutOfFuel, st2, d2)
                 | _ => (lerr TypeMisMatch (eloc fe), st2, d2)
                 end
          end
      | ESet x ve _ =>
          dod (v, st1, d1) <- deval_expr f ve env st d ;;
          match env_set st1 env x v with
          | Some st2 => (Ok VVoid, st2, d1)
          | None => (err UnboundedSymbol, st1, d1)
          end
      | ELambda fm defs body _ => (Ok (VProcU fm defs body env), st, d)
      | EIf c t alt _ =>
          dod (cv, st1, d1) <- deval_expr f c env st d ;;
          if truthy cv then deval_expr f t env st1 d1
          else match alt with
               | Some a => deval_expr f a env st1 d1
               | None => (Ok VVoid, st1, d1)
               end
      | ESym x l =>
          match env_get st env x with
          | Some v => (Ok v, st, d)
          | None => (lerr UnboundedSymbol l, st, d)
          end
      end)
  end

with deval_args (fuel : nat) (args : list expr) (env : nat) (st : state) (d : dstate) {struct fuel}
  : dres (list value) :=
  match fuel with
  | O => (OutOfFuel, st, d)
  | S f =>
      match args with
      | [] => (Ok [], st, d)
      | a :: r =>
          dod (v, st1, d1) <- deval_expr f a env st d ;;
          dod (vs, st2, d2) <- deval_args f r env st1 d1 ;;
          (Ok (v :: vs), st2, d2)
      end
  end

with deval_tail (fuel : nat) (e : expr) (env : nat) (st : state) (d : dstate) {struct fuel} : dres tailres :=
  match fuel with
  | O => (OutOfFuel, st, d)
  | S f =>
      dguard d (fun d =>
      match e with
      | ECall fe args _ => (Ok (TRCall fe args env), st, d)
      | EIf c t alt _ =>
          dod (cv, st1, d1) <- deval_expr f c env st d ;;
          if truthy cv then deval_tail f t env st1 d1
          else match alt with
               | Some a => deval_tail f a env st1 d1
               | None => (Ok (TRValue VVoid), st1, d1)
               end
      | _ => dod (v, st1, d1) <- deval_expr f e env st d ;; (Ok (TRValue v), st1, d1)
      end)
  end

with dapply_scheme (fuel : nat) (fm : formals) (defs : list (str * expr * loc)) (body : list expr)
                   (closure : nat) (args : list value) (st : state) (d : dstate) {struct fuel} : dres tailres :=
  match fuel with
  | O => (OutOfFuel, st, d)
  | S f =>
      dguard d (fun d =>
      let '(local, st0) := alloc_frame st (Some closure) in
      match bind_fixed st0 local (f_fixed fm) args with
      | Ok (surplus, st1) =>
          let st2 := match f_rest fm with
                     | Some r => env_define st1 local r (vlist surplus)
                     | None => st1
                     end in
          dod (_, st3, d3) <- deval_defs f defs local st2 d ;;
          deval_body f body local st3 d3
      | Err k l => (Err k l, st0, d)
      | Panic x => (Panic x, st0, d)
      | OutOfFuel => (OutOfFuel, st0, d)
      end)
  end

with deval_defs (fuel : nat) (defs : list (str * expr * loc)) (env : nat) (st : state) (d : dstate)
  {struct fuel} : dres unit :=
  match fuel with
  | O => (OutOfFuel, st, d)
  | S f =>
      match defs with
      | [] => (Ok tt, st, d)
      | (x, e, _) :: r =>
          dod (v, st1, d1) <- deval_expr f e env st d ;;
          deval_defs f r env (env_define st1 env x v) d1
      end
  end

with deval_body (fuel : nat) (body : list expr) (env : nat) (st : state) (d : dstate) {struct fuel}
  : dres tailres :=
  match fuel with
  | O => (OutOfFuel, st, d)
  | S f =>
      match body with
      | [] => (Panic PEmptyBody, st, d)
      | [last] => deval_tail f last env st d
      | e :: r => dod (_, st1, d1) <- deval_expr f e env st d ;; deval_body f r env st1 d1
      end
  end

with dapply_proc (fuel : nat) (p : value) (args : list value) (env : nat) (st : state) (d : dstate)
  {struct fuel} : dres value :=
  match fuel with
  | O => (OutOfFuel, st, d)
  | S f => dguard d (fun d => dtramp f p args env st d)
  end

with dtramp (fuel : nat) (p : value) (args : list value) (env : nat) (st : state) (d : dstate)
  {struct fuel} : dres value :=
  match fuel with
  | O => (OutOfFuel, st, d)
  | S f =>
      match proc_arity p with
      | None => (Panic PUnmodelled, st, d)
      | Some (fixed, variadic) =>
          if negb (arity_ok (length args) fixed variadic) then (err ArgumentMissMatch, st, d)
          else
            match p with
            | VProcB name =>
                if str_eqb name apply_name then dbuiltin_apply f args env st d
                else dlift (builtin_call name args st) d
            | VProcU fm defs body closure =>
                dod (tr, st1, d1) <- dapply_scheme f fm defs body closure args st d ;;
                match tr with
                | TRValue v => (Ok v, st1, d1)
                | TRCall fe aes last_env =>
                    dod (first, st2, d2) <- deval_expr f fe last_env st1 d1 ;;
                    dod (vs, st3, d3) <- deval_args f aes last_env st2 d2 ;;
                    match first with
                    | VProcU _ _ _ _ | VProcB _ => dtramp f first vs env st3 d3
                    | _ => (lerr TypeMisMatch (eloc fe), st3, d3)
                    end
                end
            | _ => (Panic PUnmodelled, st, d)
            end
      end
  end

with dbuiltin_apply (fuel : nat) (args : list value) (env : nat) (st : state) (d : dstate) {struct fuel}
  : dres value :=
  match fuel with
  | O => (OutOfFuel, st, d)
  | S f =>
      dguard d (fun d =>
      match args with
      | [] => (Panic PBuiltinArg, st, d)
      | p :: rest =>
          match p with
          | VProcU _ _ _ _ | VProcB _ =>
              match rev rest with
              | [] => dapply_proc f p [] env st d
              | last :: init_rev =>
                  match last with
                  | VNil | VPair _ _ => dapply_proc f p (rev init_rev ++ vitems last) env st d
                  | _ => (err TypeMisMatch, st, d)
                  end
              end
          | _ => (err TypeMisMatch, st, d)
          end
      end)
  end.
