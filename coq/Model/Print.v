(** Display for Value / Number / GenericPair (values.rs, pair.rs) and Rust's {:?} of f32
    (shortest digits that identify the binary32 value, Rust's notation thresholds). *)
From Coq Require Import ZArith NArith QArith Qround List Bool.
From Flocq Require Import IEEE754.BinarySingleNaN.
From RV Require Import Model.Common Model.Real32 Model.Num Model.Datum Model.Macro Model.Ast Model.Value.
Import ListNotations.
Local Open Scope Z_scope.

Definition digit_char (d : Z) : char := Z.to_N (48 + d).

(** decimal digits of a non-negative integer, most significant first *)
Fixpoint digits_fuel (fuel : nat) (z : Z) (acc : list char) : list char :=
  match fuel with
  | O => acc
  | S f => if z <? 10 then digit_char z :: acc
           else digits_fuel f (z / 10) (digit_char (z mod 10) :: acc)
  end.
Definition digits_of (z : Z) : list char := digits_fuel (S (Z.to_nat (Z.log2 z))) z [].

Definition print_Z (z : Z) : str :=
  if z <? 0 then 45%N :: digits_of (- z) else digits_of z.

Definition str_of_ascii (l : list Z) : str := map Z.to_N l.

(** the shortest decimal [D * 10^p] in the rounding interval of the positive finite
    binary32 number [m * 2^e] *)
Definition pow10Q (p : Z) : Q :=
  if 0 <=? p then inject_Z (10 ^ p) else (1 / inject_Z (10 ^ (- p)))%Q.
Definition pow2Q (p : Z) : Q :=
  if 0 <=? p then inject_Z (2 ^ p) else (1 / inject_Z (2 ^ (- p)))%Q.

Fixpoint shortest_search (fuel : nat) (p : Z) (v low high : Q) (incl : bool) : Z * Z :=
  match fuel with
  | O => (0, 0)
  | S f =>
      let tenp := pow10Q p in
      let d := Qfloor (v / tenp) in
      let down := (inject_Z d * tenp)%Q in
      let up := (inject_Z (d + 1) * tenp)%Q in
      let in_r (c : Q) := if incl then Qle_bool low c && Qle_bool c high
                          else negb (Qle_bool c low) && negb (Qle_bool high c) in
      let dn_ok := (0 <? d) && in_r down in
      let up_ok := in_r up in
      if dn_ok || up_ok then
        if up_ok && (negb dn_ok || Qle_bool tenp (2 * (v - down))) then (d + 1, p) else (d, p)
      else shortest_search f (p - 1) v low high incl
  end.

Definition shortest_digits (m : positive) (e : Z) : Z * Z :=
  let v := (inject_Z (Zpos m) * pow2Q e)%Q in
  let plus := pow2Q (e - 1) in
  let minus := if (Zpos m =? 8388608) && (-149 <? e) then pow2Q (e - 2) else pow2Q (e - 1) in
  shortest_search 100 39 (Qred v) (Qred (v - minus)) (Qred (v + plus)) (Z.even (Zpos m)).

Definition f32_1e16 : Q := inject_Z 10000000272564224.
(** 1e-4f32 = 13743895 * 2^-37 *)
Definition f32_1em4 : Q := (inject_Z 13743895 * pow2Q (-37))%Q.

Fixpoint repeat_char (c : char) (n : nat) : list char :=
  match n with O => [] | S k => c :: repeat_char c k end.

Definition print_f32 (x : f32) : str :=
  match x with
  | B754_nan => str_of_ascii [78; 97; 78]
  | B754_infinity s => (if s then [45%N] else []) ++ str_of_ascii [105; 110; 102]
  | B754_zero s => (if s then [45%N] else []) ++ str_of_ascii [48; 46; 48]
  | B754_finite s m e _ =>
      let '(D, p) := shortest_digits m e in
      let ds := digits_of D in
      let n := Z.of_nat (length ds) in
      let ex := p + n in           (* value = 0.D * 10^ex *)
      let v := (inject_Z (Zpos m) * pow2Q e)%Q in
      let body :=
        if Qle_bool f32_1e16 v || negb (Qle_bool f32_1em4 v) then
          (* exponential: d[.ddd]e<ex-1> *)
          match ds with
          | [] => []
          | d0 :: r => (d0 :: match r with [] => [] | _ => 46%N :: r end) ++ [101%N] ++ print_Z (ex - 1)
          end
        else if ex <=? 0 then
          str_of_ascii [48; 46] ++ repeat_char 48%N (Z.to_nat (- ex)) ++ ds
        else if ex <? n then
          firstn (Z.to_nat ex) ds ++ [46%N] ++ skipn (Z.to_nat ex) ds
        else ds ++ repeat_char 48%N (Z.to_nat (ex - n)) ++ str_of_ascii [46; 48]
      in (if s then [45%N] else []) ++ body
  end.

Definition print_number (x : number) : str :=
  match x with
  | NInt z => print_Z z
  | NRat n d => print_Z n ++ [47%N] ++ print_Z d
  | NReal r => print_f32 r
  end.

Definition sp : list char := [32%N].

Fixpoint join_sp (l : list str) : str :=
  match l with
  | [] => []
  | [x] => x
  | x :: r => x ++ sp ++ join_sp r
  end.

Definition print_formals (fm : formals) : str :=
  match f_fixed fm, f_rest fm with
  | [], Some r => r
  | fx, None => [40%N] ++ join_sp fx ++ [41%N]
  | fx, Some r => [40%N] ++ join_sp fx ++ str_of_ascii [32; 46; 32] ++ r ++ [41%N]
  end.

(** Display for Value; fuel bounds the nesting (a vector may contain itself) *)
Fixpoint display (fuel : nat) (st : state) (v : value) : option str :=
  match fuel with
  | O => None
  | S f =>
      let fix tail (v : value) : option str :=   (* after the first element of a pair *)
        match v with
        | VNil => Some [41%N]
        | VPair a b =>
            match display f st a, tail b with
            | Some sa, Some sb => Some (sp ++ sa ++ sb)
            | _, _ => None
            end
        | other =>
            match display f st other with
            | Some so => Some (str_of_ascii [32; 46; 32] ++ so ++ [41%N])
            | None => None
            end
        end in
      match v with
      | VNum n => Some (print_number n)
      | VSym s => Some s
      | VStr s => Some s
      | VProcU fm _ _ _ => Some (str_of_ascii [40; 108; 97; 109; 98; 100; 97; 32] ++ print_formals fm ++ [41%N])
      | VProcB name =>
          Some (str_of_ascii [60;98;117;105;108;100;45;105;110;32;112;114;111;99;101;100;117;114;101;32;40]
                ++ name ++ str_of_ascii [41; 62])
      | VVoid => Some (str_of_ascii [86; 111; 105; 100])
      | VBool true => Some (str_of_ascii [35; 116])
      | VBool false => Some (str_of_ascii [35; 102])
      | VChar c => Some (str_of_ascii [35; 92] ++ [c])
      | VVec _ a =>
          match nth_error (vectors st) a with
          | None => None
          | Some cells =>
              let fix elems (l : list value) : option (list str) :=
                match l with
                | [] => Some []
                | x :: r => match display f st x, elems r with
                            | Some sx, Some sr => Some (sx :: sr)
                            | _, _ => None
                            end
                end in
              match elems cells with
              | Some ss => Some (str_of_ascii [35; 40] ++ join_sp ss ++ [41%N])
              | None => None
              end
          end
      | VNil => Some (str_of_ascii [40; 41])
      | VPair a b =>
          match display f st a, tail b with
          | Some sa, Some sb => Some ([40%N] ++ sa ++ sb)
          | _, _ => None
          end
      | VTransformer _ => Some (str_of_ascii [35; 60; 116; 114; 97; 110; 115; 102; 111; 114; 109; 101; 114; 62])
      end
  end.
