(** Values (values.rs) and the store: environments (environment.rs LexicalScope) as a list
    of frames addressed by index, vectors as a list of cells addressed by index.
    Rc sharing is address equality; pairs are owned trees inside the value. *)
From Coq Require Import ZArith NArith List Bool.
From RV Require Import Model.Common Model.Real32 Model.Num Model.Datum Model.Macro Model.Ast.
Import ListNotations.

Inductive value :=
  | VNum (n : number)
  | VBool (b : bool)
  | VChar (c : char)
  | VStr (s : str)
  | VSym (s : str)
  | VProcU (fm : formals) (defs : list (str * expr * loc)) (body : list expr) (env : nat)
  | VProcB (name : str)
  | VVec (mutable : bool) (addr : nat)
  | VPair (car cdr : value)
  | VNil
  | VTransformer (t : transformer)
  | VVoid.

Record frame := { f_parent : option nat; f_defs : list (str * value) }.

Record state := {
  frames : list frame;
  vectors : list (list value);
  out : list char;          (* stdout, in order *)
  ticks : list Z            (* trace of the harness's tick procedure *)
}.

Definition empty_state : state :=
  {| frames := []; vectors := []; out := []; ticks := [] |}.

Definition set_frames (st : state) (fs : list frame) : state :=
  {| frames := fs; vectors := vectors st; out := out st; ticks := ticks st |}.
Definition set_vectors (st : state) (vs : list (list value)) : state :=
  {| frames := frames st; vectors := vs; out := out st; ticks := ticks st |}.
Definition add_out (st : state) (s : list char) : state :=
  {| frames := frames st; vectors := vectors st; out := out st ++ s; ticks := ticks st |}.
Definition add_tick (st : state) (z : Z) : state :=
  {| frames := frames st; vectors := vectors st; out := out st; ticks := ticks st ++ [z] |}.
(** association lists with HashMap::insert semantics *)
Fixpoint alist_get {A} (l : list (str * A)) (x : str) : option A :=
  match l with
  | [] => None
  | (y, v) :: r => if str_eqb x y then Some v else alist_get r x
  end.
Fixpoint alist_set {A} (l : list (str * A)) (x : str) (v : A) : list (str * A) :=
  match l with
  | [] => [(x, v)]
  | (y, w) :: r => if str_eqb x y then (y, v) :: r else (y, w) :: alist_set r x v
  end.

Fixpoint list_update {A} (l : list A) (i : nat) (v : A) : list A :=
  match l, i with
  | [], _ => []
  | _ :: r, O => v :: r
  | x :: r, S j => x :: list_update r j v
  end.

(** LexicalScope::new / new_child *)
Definition alloc_frame (st : state) (parent : option nat) : nat * state :=
  (length (frames st), set_frames st (frames st ++ [{| f_parent := parent; f_defs := [] |}])).

(** LexicalScope::define *)
Definition env_define (st : state) (a : nat) (x : str) (v : value) : state :=
  match nth_error (frames st) a with
  | Some fr => set_frames st (list_update (frames st) a
                   {| f_parent := f_parent fr; f_defs := alist_set (f_defs fr) x v |})
  | None => st
  end.

(** LexicalScope::get; fuel bounds the length of the parent chain *)
Fixpoint env_get_fuel (fuel : nat) (fs : list frame) (a : nat) (x : str) : option value :=
  match fuel with
  | O => None
  | S f =>
      match nth_error fs a with
      | None => None
      | Some fr =>
          match alist_get (f_defs fr) x with
          | Some v => Some v
          | None => match f_parent fr with Some p => env_get_fuel f fs p x | None => None end
          end
      end
  end.
Definition env_get (st : state) (a : nat) (x : str) : option value :=
  env_get_fuel (S (length (frames st))) (frames st) a x.

(** the innermost frame of the chain that defines x *)
Fixpoint defining_frame_fuel (fuel : nat) (fs : list frame) (a : nat) (x : str) : option nat :=
  match fuel with
  | O => None
  | S f =>
      match nth_error fs a with
      | None => None
      | Some fr =>
          match alist_get (f_defs fr) x with
          | Some _ => Some a
          | None => match f_parent fr with Some p => defining_frame_fuel f fs p x | None => None end
          end
      end
  end.
Definition defining_frame (st : state) (a : nat) (x : str) : option nat :=
  defining_frame_fuel (S (length (frames st))) (frames st) a x.

(** LexicalScope::set *)
Definition env_set (st : state) (a : nat) (x : str) (v : value) : option state :=
  match defining_frame st a x with
  | Some d => Some (env_define st d x v)
  | None => None
  end.

Definition alloc_vector (st : state) (cells : list value) : nat * state :=
  (length (vectors st), set_vectors st (vectors st ++ [cells])).

(** Value::as_boolean *)
Definition truthy (v : value) : bool :=
  match v with VBool false => false | _ => true end.

(** a proper list value *)
Fixpoint vlist (l : list value) : value :=
  match l with [] => VNil | x :: r => VPair x (vlist r) end.

(** GenericPair::into_iter on a pair value: elements, an improper tail included last *)
Fixpoint vitems (v : value) : list value :=
  match v with
  | VPair a b =>
      match b with
      | VNil => [a]
      | VPair _ _ => a :: vitems b
      | other => [a; other]
      end
  | _ => []
  end.
