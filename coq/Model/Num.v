(** Model of the numeric tower of values.rs (after the exact-arithmetic repair).
    i32 fields are Z; i128 intermediates are Z (products and sums of i32 values cannot
    overflow i128). No proofs here. *)
From Coq Require Import ZArith List Bool.
From RV Require Import Model.Common Model.Real32.
Import ListNotations.
Local Open Scope Z_scope.

Inductive number :=
  | NInt (z : Z)              (* Number::Integer(i32) *)
  | NRat (n d : Z)            (* Number::Rational(i32, i32) *)
  | NReal (r : f32).          (* Number::Real(f32) *)

Definition i32_min := -2147483648.
Definition i32_max := 2147483647.
Definition fits_i32 (z : Z) : bool := (i32_min <=? z) && (z <=? i32_max).

(** Number::exact_ratio *)
Definition exact_ratio (n d : Z) : option number :=
  if d =? 0 then None
  else
    let n1 := if d <? 0 then - n else n in
    let d1 := if d <? 0 then - d else d in
    let g := Z.gcd n1 d1 in
    let n2 := Z.quot n1 g in
    let d2 := Z.quot d1 g in
    if fits_i32 n2 && fits_i32 d2 then
      (if d2 =? 1 then Some (NInt n2) else Some (NRat n2 d2))
    else None.

Inductive operands :=
  | OInt (a b : Z)
  | OReal (a b : f32)
  | ORat (a1 a2 b1 b2 : Z).

Definition ratio_real (n d : Z) : f32 := fdiv (f32_of_Z n) (f32_of_Z d).

Definition upcast (x y : number) : operands :=
  match x, y with
  | NRat n d, NReal b => OReal (ratio_real n d) b
  | NReal a, NRat n d => OReal a (ratio_real n d)
  | NInt a, NReal b => OReal (f32_of_Z a) b
  | NReal a, NInt b => OReal a (f32_of_Z b)
  | NRat n d, NInt b => ORat n d b 1
  | NInt a, NRat n d => ORat a 1 n d
  | NInt a, NInt b => OInt a b
  | NReal a, NReal b => OReal a b
  | NRat a1 a2, NRat b1 b2 => ORat a1 a2 b1 b2
  end.

Definition as_real (x : number) : f32 :=
  match x with
  | NInt z => f32_of_Z z
  | NReal r => r
  | NRat n d => ratio_real n d
  end.

Definition or_real (o : option number) (r : f32) : number :=
  match o with Some x => x | None => NReal r end.

Definition num_add (x y : number) : number :=
  or_real (match upcast x y with
           | OInt a b => exact_ratio (a + b) 1
           | OReal a b => Some (NReal (fadd a b))
           | ORat a1 a2 b1 b2 => exact_ratio (a1 * b2 + a2 * b1) (a2 * b2)
           end) (fadd (as_real x) (as_real y)).

Definition num_sub (x y : number) : number :=
  or_real (match upcast x y with
           | OInt a b => exact_ratio (a - b) 1
           | OReal a b => Some (NReal (fsub a b))
           | ORat a1 a2 b1 b2 => exact_ratio (a1 * b2 - a2 * b1) (a2 * b2)
           end) (fsub (as_real x) (as_real y)).

Definition num_mul (x y : number) : number :=
  or_real (match upcast x y with
           | OInt a b => exact_ratio (a * b) 1
           | OReal a b => Some (NReal (fmul a b))
           | ORat a1 a2 b1 b2 => exact_ratio (a1 * b1) (a2 * b2)
           end) (fmul (as_real x) (as_real y)).

Definition num_div (x y : number) : res number :=
  match upcast x y with
  | OInt a b =>
      if b =? 0 then err DivisionByZero
      else Ok (or_real (exact_ratio a b) (fdiv (as_real x) (as_real y)))
  | OReal a b => Ok (NReal (fdiv a b))
  | ORat a1 a2 b1 b2 =>
      if b1 =? 0 then err DivisionByZero
      else if a2 =? 0 then err DivisionByZero
      else if b2 =? 0 then err DivisionByZero
      else Ok (or_real (exact_ratio (a1 * b2) (a2 * b1)) (fdiv (as_real x) (as_real y)))
  end.

Definition num_abs (x : number) : number :=
  or_real (match x with
           | NInt z => exact_ratio (Z.abs z) 1
           | NReal r => Some (NReal (fabs r))
           | NRat n d => exact_ratio (Z.abs n) (Z.abs d)
           end) (fabs (as_real x)).

Definition num_sqrt (x : number) : number := NReal (fsqrt (as_real x)).

Definition num_floor (x : number) : number :=
  match x with
  | NInt z => NInt z
  | NReal r => NReal (ffloor r)
  | NRat n d =>
      if d =? 0 then NReal (ffloor (as_real x))
      else
        let s := Z.sgn d in
        or_real (exact_ratio ((n * s) / (d * s)) 1) (ffloor (as_real x))
  end.

Definition num_ceiling (x : number) : number :=
  match x with
  | NInt z => NInt z
  | NReal r => NReal (fceil r)
  | NRat n d =>
      if d =? 0 then NReal (fceil (as_real x))
      else
        let s := Z.sgn d in
        or_real (exact_ratio (- ((- (n * s)) / (d * s))) 1) (fceil (as_real x))
  end.

Definition num_floor_quotient (x y : number) : res number :=
  do q <- num_div x y ;; Ok (num_floor q).

Definition num_floor_remainder (x y : number) : res number :=
  do q <- num_floor_quotient x y ;; Ok (num_sub x (num_mul q y)).

Definition num_exact (x : number) : res number :=
  match x with
  | NReal r =>
      let t := fround r in
      if fis_finite t && fits_i32 (ftruncZ t) then Ok (NInt (ftruncZ t))
      else err InExactConversion
  | _ => Ok x
  end.

(** PartialEq::eq, i.e. Scheme [=] *)
Definition num_eqb (x y : number) : bool :=
  match upcast x y with
  | OInt a b => a =? b
  | ORat a1 a2 b1 b2 => a1 * b2 =? b1 * a2
  | OReal a b => feqb a b
  end.

(** PartialOrd::partial_cmp *)
Definition num_cmp (x y : number) : option comparison :=
  match upcast x y with
  | OInt a b => Some (a ?= b)
  | ORat a1 a2 b1 b2 =>
      let s := Z.sgn (a2 * b2) in
      Some ((a1 * b2 * s) ?= (b1 * a2 * s))
  | OReal a b => fcompare a b
  end.

Definition num_ltb (x y : number) : bool :=
  match num_cmp x y with Some Lt => true | _ => false end.
Definition num_leb (x y : number) : bool :=
  match num_cmp x y with Some Lt | Some Eq => true | _ => false end.
Definition num_gtb (x y : number) : bool :=
  match num_cmp x y with Some Gt => true | _ => false end.
Definition num_geb (x y : number) : bool :=
  match num_cmp x y with Some Gt | Some Eq => true | _ => false end.

(** Number::exact_eqv, the numeric case of eqv? *)
Definition num_eqv (x y : number) : bool :=
  match x, y with
  | NInt a, NInt b => a =? b
  | NRat a1 b1, NRat a2 b2 => a1 * b2 =? b1 * a2
  | NReal a, NReal b => feqb a b
  | _, _ => false
  end.

(** NumberBinaryOperand::lhs / rhs *)
Definition norm_rat (n d : Z) : number :=
  match exact_ratio n d with Some x => x | None => NRat n d end.
Definition op_lhs (o : operands) : number :=
  match o with OInt a _ => NInt a | OReal a _ => NReal a | ORat a1 a2 _ _ => norm_rat a1 a2 end.
Definition op_rhs (o : operands) : number :=
  match o with OInt _ b => NInt b | OReal _ b => NReal b | ORat _ _ b1 b2 => norm_rat b1 b2 end.

(** one step of the max / min folds of base.rs (first_of_order!) *)
Definition num_max2 (a b : number) : number :=
  if num_gtb a b then op_lhs (upcast a b) else op_rhs (upcast a b).
Definition num_min2 (a b : number) : number :=
  if num_ltb a b then op_lhs (upcast a b) else op_rhs (upcast a b).

Definition is_exact (x : number) : bool :=
  match x with NReal _ => false | _ => true end.
