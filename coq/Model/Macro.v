(** Model of src/parser/macros.rs (after the repairs): syntax-rules patterns, templates,
    the index-driven backtracking matcher with its side-effecting substitution table, and
    template substitution. *)
From Coq Require Import ZArith NArith List Bool.
From RV Require Import Model.Common Model.Datum.
Import ListNotations.

Inductive pattern :=
  | PUnderscore (l : loc)
  | PEllipsis (l : loc)
  | PNil (l : loc)                          (* Pair(Empty) *)
  | PCons (car cdr : pattern) (l : loc)     (* Pair(Some(car, cdr)) *)
  | PVec (v : list pattern) (l : loc)
  | PIdent (s : str) (l : loc)
  | PLit (p : prim) (l : loc).

Definition ploc_of (p : pattern) : loc :=
  match p with
  | PUnderscore l | PEllipsis l | PNil l | PCons _ _ l | PVec _ l | PIdent _ l | PLit _ l => l
  end.

Inductive template :=
  | TList (els : list (template * bool)) (l : loc)   (* SyntaxTemplateElement(template, ellipsis) *)
  | TVecT (els : list (template * bool)) (l : loc)
  | TId (s : str) (l : loc)
  | TLit (p : prim) (l : loc).

Record transformer := {
  t_ellipsis : option str;
  t_literals : list str;
  t_rules : list (pattern * template)
}.

Definition s_ellipsis : str := [46; 46; 46]%N.
Definition s_underscore : str := [95]%N.

Definition str_in (s : str) (l : list str) : bool := existsb (str_eqb s) l.

(** GenericPair::iter / last_cdr on patterns *)
Fixpoint pat_iter (p : pattern) : list pattern :=
  match p with PCons a b _ => a :: pat_iter b | _ => [] end.
Fixpoint pat_last_cdr (p : pattern) : option pattern :=
  match p with
  | PCons _ b _ =>
      match b with
      | PNil _ => None
      | PCons _ _ _ => pat_last_cdr b
      | other => Some other
      end
  | _ => None
  end.

(** HashMap<String, (Datum, Vec<Datum>)> as an association list *)
Definition subst := list (str * (datum * list datum)).

Fixpoint subst_get (s : subst) (x : str) : option (datum * list datum) :=
  match s with
  | [] => None
  | (y, v) :: r => if str_eqb x y then Some v else subst_get r x
  end.

Fixpoint subst_insert (s : subst) (x : str) (v : datum * list datum) : subst :=
  match s with
  | [] => [(x, v)]
  | (y, w) :: r => if str_eqb x y then (y, v) :: r else (y, w) :: subst_insert r x v
  end.

(** substitutions.get_mut(&var).unwrap().1.push(d) *)
Definition subst_push (s : subst) (x : str) (d : datum) : option subst :=
  match subst_get s x with
  | None => None
  | Some (a, v) => Some (subst_insert s x (a, v ++ [d]))
  end.

Fixpoint subst_push_all (s : subst) (fresh : subst) : res subst :=
  match fresh with
  | [] => Ok s
  | (x, (d, _)) :: r =>
      match subst_push s x d with
      | None => Panic PSubstGetMut
      | Some s' => subst_push_all s' r
      end
  end.

Definition is_pair_datum (d : datum) : bool :=
  match d with DNil _ | DCons _ _ _ => true | _ => false end.
Definition is_pair_pattern (p : pattern) : bool :=
  match p with PNil _ | PCons _ _ _ => true | _ => false end.

(** match_datum / match_datum_stream. The substitution table is threaded through every
    call, successful or not, exactly as the &mut HashMap is. *)
Fixpoint match_datum (fuel : nat) (lits : list str) (p : pattern) (d : datum) (s : subst)
  : res (bool * subst) :=
  match fuel with
  | O => OutOfFuel
  | S f =>
      match p with
      | PUnderscore _ => Ok (true, s)
      | PEllipsis _ => Ok (true, s)
      | PNil _ | PCons _ _ _ =>
          if is_pair_datum d then
            do x <- match_stream f lits (pat_iter p) (datum_iter d) s None ;;
            let '(b, s1) := x in
            if b then
              match pat_last_cdr p, datum_last_cdr d with
              | Some lp, Some ld => match_datum f lits lp ld s1
              | None, None => Ok (true, s1)
              | _, _ => Ok (false, s1)
              end
            else Ok (false, s1)
          else Ok (false, s)
      | PVec sps _ =>
          match d with
          | DVec sds _ => match_stream f lits sps sds s None
          | _ => Ok (false, s)
          end
      | PIdent x _ =>
          if str_in x lits then
            Ok (match d with DSym y _ => str_eqb y x | _ => false end, s)
          else Ok (true, subst_insert s x (d, []))
      | PLit q _ =>
          match d with
          | DPrim q' _ => Ok (prim_eqb q q', s)
          | _ => Ok (false, s)
          end
      end
  end

with match_stream (fuel : nat) (lits : list str) (ps : list pattern) (ds : list datum) (s : subst)
                  (multi : option pattern) : res (bool * subst) :=
  match fuel with
  | O => OutOfFuel
  | S f =>
      match ps, ds with
      | [], [] => Ok (true, s)
      | sp :: ps', [] =>
          match sp, multi with
          | PEllipsis _, Some _ => match_stream f lits ps' [] s multi
          | _, _ => Ok (false, s)
          end
      | [], _ :: _ => Ok (false, s)
      | sp :: ps', sd :: ds' =>
          do x <- match_datum f lits sp sd s ;;
          let '(b, s1) := x in
          if b then
            match sp with
            | PEllipsis l =>
                match multi with
                | Some mmp =>
                    do y <- match_datum f lits mmp sd [] ;;
                    let '(b2, fresh) := y in
                    if b2 then
                      do s2 <- subst_push_all s1 fresh ;;
                      do z <- match_stream f lits ps ds' s2 (Some mmp) ;;
                      let '(b3, s3) := z in
                      if b3 then Ok (true, s3)
                      else match_stream f lits ps' ds' s3 (Some mmp)
                    else Ok (false, s1)
                | None => lerr UnexpectedPattern l
                end
            | PIdent x _ =>
                if str_in x lits then match_stream f lits ps' ds' s1 None
                else match_stream f lits ps' ds' s1 (Some sp)
            | _ => match_stream f lits ps' ds' s1 (Some sp)
            end
          else Ok (false, s1)
      end
  end.

(** substitude_ellipsis_item *)
Fixpoint subst_item (fuel : nat) (t : template) (s : subst) (idx : nat) : res (option datum) :=
  match fuel with
  | O => OutOfFuel
  | S f =>
      let items := fix go (els : list (template * bool)) : res (option (list datum)) :=
        match els with
        | [] => Ok (Some [])
        | (t', _) :: r =>
            do o <- subst_item f t' s idx ;;
            match o with
            | None => Ok None
            | Some d => do os <- go r ;;
                        Ok (match os with Some l => Some (d :: l) | None => None end)
            end
        end in
      match t with
      | TList els _ => do o <- items els ;; Ok (option_map dlist o)
      | TVecT els _ => do o <- items els ;; Ok (option_map (fun v => DVec v None) o)
      | TId x _ =>
          match subst_get s x with
          | Some (_, vec) => Ok (match vec with [] => None | _ => nth_error vec idx end)
          | None => Ok (Some (DSym x None))
          end
      | TLit p _ => Ok (Some (DPrim p None))
      end
  end.

(** the [while let Some(item)] loop of substitute_template_element *)
Fixpoint subst_items_from (fuel : nat) (t : template) (s : subst) (idx : nat) : res (list datum) :=
  match fuel with
  | O => OutOfFuel
  | S f =>
      do o <- subst_item f t s idx ;;
      match o with
      | None => Ok []
      | Some d => do r <- subst_items_from f t s (S idx) ;; Ok (d :: r)
      end
  end.

(** SyntaxTemplate::substitude; data built from the template carry no location *)
Fixpoint substitute (fuel : nat) (t : template) (s : subst) : res (list datum) :=
  match fuel with
  | O => OutOfFuel
  | S f =>
      let elems := fix go (els : list (template * bool)) : res (list datum) :=
        match els with
        | [] => Ok []
        | (t', ell) :: r =>
            do first <- substitute f t' s ;;
            do more <- (if ell then subst_items_from f t' s 0 else Ok []) ;;
            do rest <- go r ;;
            Ok (first ++ more ++ rest)
        end in
      match t with
      | TList els _ => do items <- elems els ;; Ok [dlist items]
      | TVecT els _ => do items <- elems els ;; Ok [DVec items None]
      | TId x l =>
          match subst_get s x with
          | Some (single, _) => Ok [single]
          | None => Ok [DSym x None]
          end
      | TLit p _ => Ok [DPrim p None]
      end
  end.

Fixpoint template_size (t : template) : nat :=
  match t with
  | TList els _ | TVecT els _ => S (fold_right (fun e n => template_size (fst e) + n) 0 els)
  | _ => 1
  end.
Fixpoint pattern_size (p : pattern) : nat :=
  match p with
  | PCons a b _ => S (pattern_size a + pattern_size b)
  | PVec v _ => S (fold_right (fun x n => pattern_size x + n) 0 v)
  | _ => 1
  end.

Definition match_fuel (p : pattern) (d : datum) : nat := 4 * (pattern_size p + datum_size d) + 16.
Definition subst_fuel (t : template) (d : datum) : nat := 4 * (template_size t + datum_size d) + 16.

(** UserDefinedTransformer::transform: rules in order, a fresh table per rule *)
Fixpoint apply_rules (rules : list (pattern * template)) (lits : list str) (d : datum) : res datum :=
  match rules with
  | [] => err MacroMissMatch
  | (p, t) :: r =>
      do x <- match_datum (match_fuel p d) lits p d [] ;;
      let '(b, s) := x in
      if b then
        do out <- substitute (subst_fuel t d) t s ;;
        match out with
        | [one] => Ok one
        | _ => lerr TransformOutMultipleDatum (ploc_of p)
        end
      else apply_rules r lits d
  end.

Definition transform_use (tr : transformer) (d : datum) : res datum :=
  apply_rules (t_rules tr) (t_literals tr) d.
