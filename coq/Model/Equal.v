(** Derived PartialEq of the Rust AST types (locations are ignored: Located<T>::eq compares
    the data only). Needed by eqv? on procedures and transformers. *)
From Coq Require Import ZArith NArith List Bool.
From RV Require Import Model.Common Model.Datum Model.Macro Model.Ast.
Import ListNotations.

Fixpoint list_eqb {A} (f : A -> A -> bool) (a b : list A) : bool :=
  match a, b with
  | [], [] => true
  | x :: a', y :: b' => f x y && list_eqb f a' b'
  | _, _ => false
  end.

Definition option_eqb {A} (f : A -> A -> bool) (a b : option A) : bool :=
  match a, b with
  | None, None => true
  | Some x, Some y => f x y
  | _, _ => false
  end.

Fixpoint datum_eqb (a b : datum) : bool :=
  match a, b with
  | DPrim p _, DPrim q _ => prim_eqb p q
  | DSym s _, DSym t _ => str_eqb s t
  | DNil _, DNil _ => true
  | DCons a1 a2 _, DCons b1 b2 _ => datum_eqb a1 b1 && datum_eqb a2 b2
  | DVec v _, DVec w _ =>
      (fix go (v w : list datum) : bool :=
         match v, w with
         | [], [] => true
         | x :: v', y :: w' => datum_eqb x y && go v' w'
         | _, _ => false
         end) v w
  | _, _ => false
  end.

Definition formals_eqb (a b : formals) : bool :=
  list_eqb str_eqb (f_fixed a) (f_fixed b) && option_eqb str_eqb (f_rest a) (f_rest b).

Fixpoint expr_eqb (a b : expr) : bool :=
  let exprs := fix go (v w : list expr) : bool :=
    match v, w with
    | [], [] => true
    | x :: v', y :: w' => expr_eqb x y && go v' w'
    | _, _ => false
    end in
  let defs := fix go (v w : list (str * expr * loc)) : bool :=
    match v, w with
    | [], [] => true
    | (n1, e1, _) :: v', (n2, e2, _) :: w' => str_eqb n1 n2 && expr_eqb e1 e2 && go v' w'
    | _, _ => false
    end in
  match a, b with
  | ESym s _, ESym t _ => str_eqb s t
  | EPrim p _, EPrim q _ => prim_eqb p q
  | ESet x e _, ESet y f _ => str_eqb x y && expr_eqb e f
  | ELambda f1 d1 b1 _, ELambda f2 d2 b2 _ => formals_eqb f1 f2 && defs d1 d2 && exprs b1 b2
  | ECall f1 a1 _, ECall f2 a2 _ => expr_eqb f1 f2 && exprs a1 a2
  | EIf c1 t1 e1 _, EIf c2 t2 e2 _ =>
      expr_eqb c1 c2 && expr_eqb t1 t2 &&
      match e1, e2 with
      | None, None => true
      | Some x, Some y => expr_eqb x y
      | _, _ => false
      end
  | EQuote d _, EQuote e _ => datum_eqb d e
  | EDatum d _, EDatum e _ => datum_eqb d e
  | _, _ => false
  end.

Fixpoint pattern_eqb (a b : pattern) : bool :=
  match a, b with
  | PUnderscore _, PUnderscore _ => true
  | PEllipsis _, PEllipsis _ => true
  | PNil _, PNil _ => true
  | PCons a1 a2 _, PCons b1 b2 _ => pattern_eqb a1 b1 && pattern_eqb a2 b2
  | PVec v _, PVec w _ =>
      (fix go (v w : list pattern) : bool :=
         match v, w with
         | [], [] => true
         | x :: v', y :: w' => pattern_eqb x y && go v' w'
         | _, _ => false
         end) v w
  | PIdent s _, PIdent t _ => str_eqb s t
  | PLit p _, PLit q _ => prim_eqb p q
  | _, _ => false
  end.

Fixpoint template_eqb (a b : template) : bool :=
  let els := fix go (v w : list (template * bool)) : bool :=
    match v, w with
    | [], [] => true
    | (x, e1) :: v', (y, e2) :: w' => template_eqb x y && Bool.eqb e1 e2 && go v' w'
    | _, _ => false
    end in
  match a, b with
  | TList v _, TList w _ => els v w
  | TVecT v _, TVecT w _ => els v w
  | TId s _, TId t _ => str_eqb s t
  | TLit p _, TLit q _ => prim_eqb p q
  | _, _ => false
  end.

Definition subset (a b : list str) : bool := forallb (fun x => str_in x b) a.

Definition transformer_eqb (a b : transformer) : bool :=
  option_eqb str_eqb (t_ellipsis a) (t_ellipsis b)
  && subset (t_literals a) (t_literals b) && subset (t_literals b) (t_literals a)
  && list_eqb (fun x y => pattern_eqb (fst x) (fst y) && template_eqb (snd x) (snd y))
              (t_rules a) (t_rules b).
