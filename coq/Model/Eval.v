(** Model of the evaluator of src/interpreter/interpreter.rs: eval_expression,
    eval_tail_expression, apply_scheme_procedure, apply_procedure (the trampoline, with the
    arity test inside the loop), eval_procedure_call, read_literal, eval_primitive, and the
    builtin [apply]. One fuel for the whole family. Every function returns the state it
    reached, on errors too: effects completed before an error persist. *)
From Coq Require Import ZArith NArith List Bool.
From RV Require Import Model.Common Model.Real32 Model.Num Model.Datum Model.Lexer Model.Macro Model.Ast
  Model.Value Model.Builtins.
Import ListNotations.

Definition eres (A : Type) := (res A * state)%type.

Definition ebind {A B} (r : eres A) (f : A -> state -> eres B) : eres B :=
  match r with
  | (Ok a, st) => f a st
  | (Err k l, st) => (Err k l, st)
  | (Panic x, st) => (Panic x, st)
  | (OutOfFuel, st) => (OutOfFuel, st)
  end.

Notation "'doe' ( x , st ) <- r ;; k" := (ebind r (fun x st => k))
  (at level 200, x pattern, st name, r at level 100, k at level 200, right associativity).

(** eval_primitive *)
Definition eval_real_literal (lit : str) : res number :=
  match real_parts lit with
  | Some (neg, ip, fp, e10) =>
      Ok (NReal (f32_of_decimal neg (digits_value (ip ++ fp) 0) (e10 - Z.of_nat (length fp))%Z))
  | None => Panic PUnmodelled
  end.

Definition eval_primitive (p : prim) : res value :=
  match p with
  | PChar c => Ok (VChar c)
  | PStr x => Ok (VStr x)
  | PBool b => Ok (VBool b)
  | PInt z => Ok (VNum (NInt z))
  | PReal lit => do n <- eval_real_literal lit ;; Ok (VNum n)
  | PRat a b => Ok (VNum (match exact_ratio a b with
                          | Some x => x
                          | None => NReal (fdiv (f32_of_Z a) (f32_of_Z b))
                          end))
  end.

(** read_literal: a literal vector is a fresh immutable cell on every evaluation *)
Fixpoint read_literal (d : datum) (st : state) : eres value :=
  match d with
  | DPrim p _ => (eval_primitive p, st)
  | DSym x _ => (Ok (VSym x), st)
  | DNil _ => (Ok VNil, st)
  | DCons a b _ =>
      doe (va, st1) <- read_literal a st ;;
      doe (vb, st2) <- read_literal b st1 ;;
      (Ok (VPair va vb), st2)
  | DVec v _ =>
      let fix elems (l : list datum) (st : state) : eres (list value) :=
        match l with
        | [] => (Ok [], st)
        | x :: r => doe (vx, st1) <- read_literal x st ;;
                    doe (vr, st2) <- elems r st1 ;; (Ok (vx :: vr), st2)
        end in
      doe (cells, st1) <- elems v st ;;
      let '(a, st2) := alloc_vector st1 cells in (Ok (VVec false a), st2)
  end.

Inductive tailres :=
  | TRValue (v : value)
  | TRCall (f : expr) (args : list expr) (env : nat).

(** arity test of apply_procedure *)
Definition arity_ok (nargs fixed : nat) (variadic : bool) : bool :=
  negb (Nat.ltb nargs fixed) && (Nat.leb nargs fixed || variadic).

Definition proc_arity (p : value) : option (nat * bool) :=
  match p with
  | VProcU fm _ _ _ => Some (length (f_fixed fm), match f_rest fm with Some _ => true | None => false end)
  | VProcB name => builtin_arity name
  | _ => None
  end.

Definition apply_name : str := s [97;112;112;108;121]%Z.

Fixpoint bind_fixed (st : state) (env : nat) (names : list str) (args : list value) : res (list value * state) :=
  match names with
  | [] => Ok (args, st)
  | x :: xs =>
      match args with
      | [] => Panic PArgNextUnwrap
      | v :: vs => bind_fixed (env_define st env x v) env xs vs
      end
  end.

Fixpoint eval_expr (fuel : nat) (e : expr) (env : nat) (st : state) {struct fuel} : eres value :=
  match fuel with
  | O => (OutOfFuel, st)
  | S f =>
      (
      match e with
      | EPrim p _ => (eval_primitive p, st)
      | EDatum d _ => read_literal d st
      | EQuote d _ => read_literal d st
      | ECall fe args _ =>
          doe (first, st1) <- eval_expr f fe env st ;;
          let '(rargs, st2) := eval_args f args env st1 in
          match first with
          | VProcU _ _ _ _ | VProcB _ =>
              doe (vs, st3) <- (rargs, st2) ;; apply_proc f first vs env st3
          | _ => match rargs with
                 | OutOfFuel => (OutOfFuel, st2)   (* the operands are evaluated to the end first *)
                 | _ => (lerr TypeMisMatch (eloc fe), st2)
                 end
          end
      | ESet x ve _ =>
          doe (v, st1) <- eval_expr f ve env st ;;
          match env_set st1 env x v with
          | Some st2 => (Ok VVoid, st2)
          | None => (err UnboundedSymbol, st1)
          end
      | ELambda fm defs body _ => (Ok (VProcU fm defs body env), st)
      | EIf c t alt _ =>
          doe (cv, st1) <- eval_expr f c env st ;;
          if truthy cv then eval_expr f t env st1
          else match alt with
               | Some a => eval_expr f a env st1
               | None => (Ok VVoid, st1)
               end
      | ESym x l =>
          match env_get st env x with
          | Some v => (Ok v, st)
          | None => (lerr UnboundedSymbol l, st)
          end
      end)
  end

(** operands left to right, stopping at the first error *)
with eval_args (fuel : nat) (args : list expr) (env : nat) (st : state) {struct fuel} : eres (list value) :=
  match fuel with
  | O => (OutOfFuel, st)
  | S f =>
      match args with
      | [] => (Ok [], st)
      | a :: r =>
          doe (v, st1) <- eval_expr f a env st ;;
          doe (vs, st2) <- eval_args f r env st1 ;;
          (Ok (v :: vs), st2)
      end
  end

(** eval_tail_expression *)
with eval_tail (fuel : nat) (e : expr) (env : nat) (st : state) {struct fuel} : eres tailres :=
  match fuel with
  | O => (OutOfFuel, st)
  | S f =>
      (
      match e with
      | ECall fe args _ => (Ok (TRCall fe args env), st)
      | EIf c t alt _ =>
          doe (cv, st1) <- eval_expr f c env st ;;
          if truthy cv then eval_tail f t env st1
          else match alt with
               | Some a => eval_tail f a env st1
               | None => (Ok (TRValue VVoid), st1)
               end
      | _ => doe (v, st1) <- eval_expr f e env st ;; (Ok (TRValue v), st1)
      end)
  end

(** apply_scheme_procedure *)
with apply_scheme (fuel : nat) (fm : formals) (defs : list (str * expr * loc)) (body : list expr)
                  (closure : nat) (args : list value) (st : state) {struct fuel} : eres tailres :=
  match fuel with
  | O => (OutOfFuel, st)
  | S f =>
      (
      let '(local, st0) := alloc_frame st (Some closure) in
      match bind_fixed st0 local (f_fixed fm) args with
      | Ok (surplus, st1) =>
          let st2 := match f_rest fm with
                     | Some r => env_define st1 local r (vlist surplus)
                     | None => st1
                     end in
          doe (_, st3) <- eval_defs f defs local st2 ;;
          eval_body f body local st3
      | Err k l => (Err k l, st0)
      | Panic x => (Panic x, st0)
      | OutOfFuel => (OutOfFuel, st0)
      end)
  end

with eval_defs (fuel : nat) (defs : list (str * expr * loc)) (env : nat) (st : state) {struct fuel} : eres unit :=
  match fuel with
  | O => (OutOfFuel, st)
  | S f =>
      match defs with
      | [] => (Ok tt, st)
      | (x, e, _) :: r =>
          doe (v, st1) <- eval_expr f e env st ;;
          eval_defs f r env (env_define st1 env x v)
      end
  end

(** the body: all but the last expression for effect, the last as tail expression *)
with eval_body (fuel : nat) (body : list expr) (env : nat) (st : state) {struct fuel} : eres tailres :=
  match fuel with
  | O => (OutOfFuel, st)
  | S f =>
      match body with
      | [] => (Panic PEmptyBody, st)
      | [last] => eval_tail f last env st
      | e :: r => doe (_, st1) <- eval_expr f e env st ;; eval_body f r env st1
      end
  end

(** apply_procedure: the trampoline. [env] is only handed on to builtins. *)
with apply_proc (fuel : nat) (p : value) (args : list value) (env : nat) (st : state) {struct fuel} : eres value :=
  match fuel with
  | O => (OutOfFuel, st)
  | S f => tramp f p args env st
  end

with tramp (fuel : nat) (p : value) (args : list value) (env : nat) (st : state) {struct fuel} : eres value :=
  match fuel with
  | O => (OutOfFuel, st)
  | S f =>
      match proc_arity p with
      | None => (Panic PUnmodelled, st)
      | Some (fixed, variadic) =>
          if negb (arity_ok (length args) fixed variadic) then (err ArgumentMissMatch, st)
          else
            match p with
            | VProcB name =>
                if str_eqb name apply_name then builtin_apply f args env st
                else builtin_call name args st
            | VProcU fm defs body closure =>
                doe (tr, st1) <- apply_scheme f fm defs body closure args st ;;
                match tr with
                | TRValue v => (Ok v, st1)
                | TRCall fe aes last_env =>
                    (* eval_procedure_call *)
                    doe (first, st2) <- eval_expr f fe last_env st1 ;;
                    doe (vs, st3) <- eval_args f aes last_env st2 ;;
                    match first with
                    | VProcU _ _ _ _ | VProcB _ => tramp f first vs env st3
                    | _ => (lerr TypeMisMatch (eloc fe), st3)
                    end
                end
            | _ => (Panic PUnmodelled, st)
            end
      end
  end

(** the native procedure apply *)
with builtin_apply (fuel : nat) (args : list value) (env : nat) (st : state) {struct fuel} : eres value :=
  match fuel with
  | O => (OutOfFuel, st)
  | S f =>
      (
      match args with
      | [] => (Panic PBuiltinArg, st)
      | p :: rest =>
          match p with
          | VProcU _ _ _ _ | VProcB _ =>
              match rev rest with
              | [] => apply_proc f p [] env st
              | last :: init_rev =>
                  match last with
                  | VNil | VPair _ _ => apply_proc f p (rev init_rev ++ vitems last) env st
                  | _ => (err TypeMisMatch, st)
                  end
              end
          | _ => (err TypeMisMatch, st)
          end
      end)
  end.
