(** Model of src/main.rs for `ruschm FILE`: a fresh interpreter WITHOUT the standard library
    evaluates the file (eval_file); standard output is what the program displayed; exit status 0
    when every form succeeded; on the first failing form one diagnostic FILE[:LINE:COL] MESSAGE on
    standard error and status 255 (exit(-1)). The message is represented by the error kind. *)
From Coq Require Import ZArith NArith List Bool.
From RV Require Import Model.Common Model.Datum Model.Lexer Model.Reader Model.Macro Model.Ast Model.Transform
  Model.Value Model.Print Model.Builtins Model.Eval Model.Interp.
Import ListNotations.

Record run_result := {
  rr_stdout : list char;
  rr_status : Z;
  rr_diag : option (errkind * loc)      (* None: no diagnostic *)
}.

Definition run_program (fs : filesys) (cwd : str) (efuel : nat) (dir : str) (file : list str) (c : ictx)
  : run_result * list (res (option value)) :=
  let '((r, c'), trace) := eval_file fs cwd efuel dir file c in
  let o := out (c_st c') in
  match r with
  | Ok _ => ({| rr_stdout := o; rr_status := 0; rr_diag := None |}, trace)
  | Err k l => ({| rr_stdout := o; rr_status := 255; rr_diag := Some (k, l) |}, trace)
  | Panic _ => ({| rr_stdout := o; rr_status := 101; rr_diag := None |}, trace)
  | OutOfFuel => ({| rr_stdout := o; rr_status := (-1); rr_diag := None |}, trace)
  end.
