(** Tokens and data (lexer.rs TokenData, datum.rs Primitive / Datum). *)
From Coq Require Import ZArith NArith List Bool.
From RV Require Import Model.Common.
Import ListNotations.

Inductive prim :=
  | PStr (s : str)
  | PChar (c : char)
  | PBool (b : bool)
  | PInt (z : Z)
  | PRat (n : Z) (d : Z)
  | PReal (lit : str).          (* the literal text, converted when evaluated *)

Inductive token :=
  | TIdent (s : str)
  | TPrim (p : prim)
  | TLParen | TRParen | TVecOpen | TByteVecOpen
  | TQuote | TQuasi | TUnquote | TUnquoteSplicing | TPeriod.

(** Located<DatumBody>; [DNil]/[DCons] are DatumBody::Pair(Empty / Some(car, cdr)) *)
Inductive datum :=
  | DPrim (p : prim) (l : loc)
  | DSym (s : str) (l : loc)
  | DNil (l : loc)
  | DCons (car cdr : datum) (l : loc)
  | DVec (v : list datum) (l : loc).

Definition dloc (d : datum) : loc :=
  match d with DPrim _ l | DSym _ l | DNil l | DCons _ _ l | DVec _ l => l end.

Definition set_dloc (d : datum) (l : loc) : datum :=
  match d with
  | DPrim p _ => DPrim p l | DSym s _ => DSym s l | DNil _ => DNil l
  | DCons a b _ => DCons a b l | DVec v _ => DVec v l
  end.

Definition prim_eqb (a b : prim) : bool :=
  match a, b with
  | PStr x, PStr y => str_eqb x y
  | PChar x, PChar y => N.eqb x y
  | PBool x, PBool y => Bool.eqb x y
  | PInt x, PInt y => Z.eqb x y
  | PRat n d, PRat n' d' => Z.eqb n n' && Z.eqb d d'
  | PReal x, PReal y => str_eqb x y
  | _, _ => false
  end.

Definition token_eqb (a b : token) : bool :=
  match a, b with
  | TIdent x, TIdent y => str_eqb x y
  | TPrim x, TPrim y => prim_eqb x y
  | TLParen, TLParen | TRParen, TRParen | TVecOpen, TVecOpen | TByteVecOpen, TByteVecOpen
  | TQuote, TQuote | TQuasi, TQuasi | TUnquote, TUnquote | TUnquoteSplicing, TUnquoteSplicing
  | TPeriod, TPeriod => true
  | _, _ => false
  end.

(** a proper list of data with no location (Datum::from(DatumList)) *)
Fixpoint dlist (l : list datum) : datum :=
  match l with
  | [] => DNil None
  | x :: xs => DCons x (dlist xs) None
  end.

(** GenericPair::into_iter on a datum list: the elements, an improper tail included as the
    last element *)
Fixpoint datum_items (d : datum) : list datum :=
  match d with
  | DCons a b _ =>
      match b with
      | DNil _ => [a]
      | DCons _ _ _ => a :: datum_items b
      | other => [a; other]
      end
  | _ => []
  end.

Fixpoint datum_size (d : datum) : nat :=
  match d with
  | DCons a b _ => S (datum_size a + datum_size b)
  | DVec v _ => S (fold_right (fun x n => datum_size x + n) 0 v)
  | _ => 1
  end.

(** GenericPair::iter (proper elements only, an improper tail is dropped) and last_cdr *)
Fixpoint datum_iter (d : datum) : list datum :=
  match d with
  | DCons a b _ => a :: datum_iter b
  | _ => []
  end.

Fixpoint datum_last_cdr (d : datum) : option datum :=
  match d with
  | DCons _ b _ =>
      match b with
      | DNil _ => None
      | DCons _ _ _ => datum_last_cdr b
      | other => Some other
      end
  | _ => None
  end.
