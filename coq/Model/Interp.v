(** Model of the interpreter around the evaluator (interpreter.rs, library_factory.rs, io.rs):
    worlds, interpreter instances, import sets, library loading with the in-progress set and
    the instance cache, eval_ast, eval (a whole text), eval_file. The file system is an
    oracle [fs]. The syntax table is a field of the world (it is thread-global in the code). *)
From Coq Require Import ZArith NArith List Bool.
From RV Require Import Model.Common Model.Real32 Model.Num Model.Datum Model.Lexer Model.Reader Model.Macro
  Model.Ast Model.Transform Model.Value Model.Equal Model.Print Model.Builtins Model.Eval.
Import ListNotations.

Definition library := list (str * value).        (* Library's HashMap, in a canonical order *)

Inductive factory :=
  | FNative (defs : library)       (* LibraryFactory::Native: a closure returning the definitions *)
  | FAst (decls : list libdecl).   (* LibraryFactory::AST *)

Inductive fentry :=
  | FFile (text : list char)       (* a readable UTF-8 file *)
  | FBadUtf8                       (* exists, not valid UTF-8 *)
  | FDir.                          (* exists, is a directory *)

(** a file is addressed by a base directory and the components of the library name *)
Definition fskey := (str * list str)%type.
Definition filesys := list (fskey * fentry).

Definition fskey_eqb (a b : fskey) : bool :=
  str_eqb (fst a) (fst b) && list_eqb str_eqb (snd a) (snd b).

Fixpoint fs_get (fs : filesys) (k : fskey) : option fentry :=
  match fs with
  | [] => None
  | (k', e) :: r => if fskey_eqb k k' then Some e else fs_get r k
  end.

Record instance := {
  i_env : nat;
  i_factories : list (libname * factory);
  i_in_progress : list libname;            (* imported_library *)
  i_libraries : list (libname * library);  (* libraries already instantiated *)
  i_import_end : bool;
  i_progdir : option str
}.

Record world := {
  w_syntax : sframe;            (* the thread-local BINDINGS *)
  w_st : state;
  w_insts : list instance;
  w_cwd : str
}.

Fixpoint lib_get {A} (l : list (libname * A)) (n : libname) : option A :=
  match l with
  | [] => None
  | (m, v) :: r => if libname_eqb n m then Some v else lib_get r n
  end.
Fixpoint lib_set {A} (l : list (libname * A)) (n : libname) (v : A) : list (libname * A) :=
  match l with
  | [] => [(n, v)]
  | (m, w) :: r => if libname_eqb n m then (m, v) :: r else (m, w) :: lib_set r n v
  end.
Fixpoint lib_remove {A} (l : list (libname * A)) (n : libname) : list (libname * A) :=
  match l with
  | [] => []
  | (m, w) :: r => if libname_eqb n m then lib_remove r n else (m, w) :: lib_remove r n
  end.
Definition in_progress (l : list libname) (n : libname) : bool := existsb (libname_eqb n) l.
Definition remove_progress (l : list libname) (n : libname) : list libname :=
  filter (fun m => negb (libname_eqb n m)) l.

(** interpreter-level result: the instance and the world's state and syntax table evolve on
    errors too *)
Record ictx := { c_inst : instance; c_st : state; c_syn : sframe }.
Definition ires (A : Type) := (res A * ictx)%type.
Definition ibind {A B} (r : ires A) (f : A -> ictx -> ires B) : ires B :=
  match r with
  | (Ok a, c) => f a c
  | (Err k l, c) => (Err k l, c)
  | (Panic x, c) => (Panic x, c)
  | (OutOfFuel, c) => (OutOfFuel, c)
  end.
Notation "'doi' ( x , c ) <- r ;; k" := (ibind r (fun x c => k))
  (at level 200, x pattern, c name, r at level 100, k at level 200, right associativity).

Definition with_st (c : ictx) (st : state) : ictx :=
  {| c_inst := c_inst c; c_st := st; c_syn := c_syn c |}.
Definition with_inst (c : ictx) (i : instance) : ictx :=
  {| c_inst := i; c_st := c_st c; c_syn := c_syn c |}.
Definition with_syn (c : ictx) (s : sframe) : ictx :=
  {| c_inst := c_inst c; c_st := c_st c; c_syn := s |}.

Definition set_progress (i : instance) (p : list libname) : instance :=
  {| i_env := i_env i; i_factories := i_factories i; i_in_progress := p;
     i_libraries := i_libraries i; i_import_end := i_import_end i; i_progdir := i_progdir i |}.
Definition set_libraries (i : instance) (l : list (libname * library)) : instance :=
  {| i_env := i_env i; i_factories := i_factories i; i_in_progress := i_in_progress i;
     i_libraries := l; i_import_end := i_import_end i; i_progdir := i_progdir i |}.
Definition set_factories (i : instance) (f : list (libname * factory)) : instance :=
  {| i_env := i_env i; i_factories := f; i_in_progress := i_in_progress i;
     i_libraries := i_libraries i; i_import_end := i_import_end i; i_progdir := i_progdir i |}.
Definition set_import_end (i : instance) (b : bool) : instance :=
  {| i_env := i_env i; i_factories := i_factories i; i_in_progress := i_in_progress i;
     i_libraries := i_libraries i; i_import_end := b; i_progdir := i_progdir i |}.
Definition set_progdir (i : instance) (d : option str) : instance :=
  {| i_env := i_env i; i_factories := i_factories i; i_in_progress := i_in_progress i;
     i_libraries := i_libraries i; i_import_end := i_import_end i; i_progdir := d |}.

(** Interpreter::register_library_factory: a new factory discards the cached instance *)
Definition register_factory (i : instance) (n : libname) (f : factory) : instance :=
  set_factories (set_libraries i (lib_remove (i_libraries i) n)) (lib_set (i_factories i) n f).

(** io.rs file_char_stream: lines (terminator "\n" or "\r\n" stripped), each followed by "\n" *)
Fixpoint file_lines (text : list char) (cur : list char) : list (list char) :=
  match text with
  | [] => match cur with [] => [] | _ => [rev cur] end
  | c :: r =>
      if N.eqb c 10 then
        (match cur with
         | x :: cur' => if N.eqb x 13 then rev cur' else rev cur
         | [] => []
         end) :: file_lines r []
      else file_lines r (c :: cur)
  end.
Definition file_chars (text : list char) : list char :=
  flat_map (fun l => l ++ [10%N]) (file_lines text []).

Definition read_file (fs : filesys) (k : fskey) : res (list char) :=
  match fs_get fs k with
  | Some (FFile t) => Ok (file_chars t)
  | Some FBadUtf8 | Some FDir => err IOError
  | None => err IOError
  end.

Definition libname_elem_str (e : libname_elem) : str :=
  match e with LIdent x => x | LInt z => print_Z z end.

(** the statements of a text, parsed with the world's syntax table (Parser::from_lexer);
    [k] consumes each statement *)
Definition parse_next (c : ictx) (s : pst) : ires (option stmt * pst) :=
  match read_next s with
  | Ok (None, s1) => (Ok (None, s1), c)
  | Ok (Some d, s1) =>
      let fuel := (100 * S (datum_size d))%nat in
      match transform_stmt fuel d [c_syn c] with
      | (r, e') =>
          let c' := with_syn c (match rev e' with root :: _ => root | [] => c_syn c end) in
          match r with
          | Ok stm => (Ok (Some stm, s1), c')
          | Err k l => (Err k l, c')
          | Panic x => (Panic x, c')
          | OutOfFuel => (OutOfFuel, c')
          end
      end
  | Err k l => (Err k l, c)
  | Panic x => (Panic x, c)
  | OutOfFuel => (OutOfFuel, c)
  end.

(** LibraryFactory::from_char_stream: the first library definition with the expected name *)
Fixpoint find_library (fuel : nat) (n : libname) (s : pst) (c : ictx) : ires factory :=
  match fuel with
  | O => (OutOfFuel, c)
  | S f =>
      doi (x, c1) <- parse_next c s ;;
      let '(o, s1) := x in
      match o with
      | None => (err LibraryNotFound, c1)
      | Some (SLibrary m decls _) =>
          if libname_eqb m n then (Ok (FAst decls), c1) else find_library f n s1 c1
      | Some _ => find_library f n s1 c1
      end
  end.

Definition factory_from_text (n : libname) (text : list char) (c : ictx) : ires factory :=
  find_library (S (length text)) n (p_init text) c.

(** import sets applied to the definitions of a library *)
Definition lift_e {A} (r : eres A) (c : ictx) : ires A :=
  let '(x, st) := r in (x, with_st c st).

Section WithFs.
Variable fs : filesys.
Variable cwd : str.

(** eval_expression_or_definition *)
Definition eval_expr_or_def (fuel : nat) (stm : stmt) (env : nat) (c : ictx) : ires (option value) :=
  match stm with
  | SExpr e =>
      doi (v, c1) <- lift_e (eval_expr fuel e env (c_st c)) c ;; (Ok (Some v), c1)
  | SDef x e _ =>
      doi (v, c1) <- lift_e (eval_expr fuel e env (c_st c)) c ;;
      (Ok None, with_st c1 (env_define (c_st c1) env x v))
  | SSyntaxDef kw t _ =>
      (Ok None, with_st c (env_define (c_st c) env kw (VTransformer t)))
  | _ => (err ExpectSomething, c)
  end.

(** eval_import_set, get_library, new_library, eval_library_definition, eval_import:
    one fuel, decreasing along the import graph and the nesting of import sets *)
Fixpoint eval_import_set (fuel : nat) (efuel : nat) (iset : import_set) (c : ictx) {struct fuel}
  : ires library :=
  match fuel with
  | O => (OutOfFuel, c)
  | S f =>
      match iset with
      | IDirect n l =>
          match lib_get (i_libraries (c_inst c)) n with
          | Some lib => (Ok lib, c)
          | None =>
              if in_progress (i_in_progress (c_inst c)) n then (lerr LibraryImportCyclic l, c)
              else
                let c0 := with_inst c (set_progress (c_inst c) (n :: i_in_progress (c_inst c))) in
                let '(r, c1) := get_library f efuel n l c0 in
                let c2 := with_inst c1 (set_progress (c_inst c1) (remove_progress (i_in_progress (c_inst c1)) n)) in
                match r with
                | Ok lib => (Ok lib, with_inst c2 (set_libraries (c_inst c2) (lib_set (i_libraries (c_inst c2)) n lib)))
                | other => (other, c2)
                end
          end
      | IOnly sub ids _ =>
          doi (defs, c1) <- eval_import_set f efuel sub c ;;
          (Ok (filter (fun d => str_in (fst d) ids) defs), c1)
      | IExcept sub ids _ =>
          doi (defs, c1) <- eval_import_set f efuel sub c ;;
          (Ok (filter (fun d => negb (str_in (fst d) ids)) defs), c1)
      | IPrefix sub p _ =>
          doi (defs, c1) <- eval_import_set f efuel sub c ;;
          (Ok (map (fun d => (p ++ fst d, snd d)) defs), c1)
      | IRename sub rn _ =>
          doi (defs, c1) <- eval_import_set f efuel sub c ;;
          (* id_map is a HashMap built from the pairs: the last pair for a name wins *)
          (Ok (map (fun d => match alist_get (rev rn) (fst d) with
                             | Some to => (to, snd d)
                             | None => d
                             end) defs), c1)
      end
  end

with get_library (fuel : nat) (efuel : nat) (n : libname) (l : loc) (c : ictx) {struct fuel} : ires library :=
  match fuel with
  | O => (OutOfFuel, c)
  | S f =>
      let with_factory (fa : factory) (c : ictx) : ires library :=
        match fa with
        | FNative defs => (Ok defs, c)
        | FAst decls => eval_library_definition f efuel decls c
        end in
      match lib_get (i_factories (c_inst c)) n with
      | Some fa => with_factory fa c
      | None =>
          (* file_library_factory *)
          let base := match i_progdir (c_inst c) with Some d => d | None => cwd end in
          let key := (base, map libname_elem_str n) in
          match fs_get fs key with
          | None => (lerr LibraryNotFound l, c)
          | Some _ =>
              match read_file fs key with
              | Ok text =>
                  doi (fa, c1) <- factory_from_text n text c ;;
                  let c2 := with_inst c1 (set_factories (c_inst c1) (lib_set (i_factories (c_inst c1)) n fa)) in
                  with_factory fa c2
              | Err k l0 => (Err k l0, c)
              | Panic x => (Panic x, c)
              | OutOfFuel => (OutOfFuel, c)
              end
          end
      end
  end

with eval_import (fuel : nat) (efuel : nat) (sets : list import_set) (env : nat) (c : ictx) {struct fuel}
  : ires unit :=
  match fuel with
  | O => (OutOfFuel, c)
  | S f =>
      let fix collect (sets : list import_set) (acc : library) (c : ictx) : ires library :=
        match sets with
        | [] => (Ok acc, c)
        | x :: r =>
            doi (defs, c1) <- eval_import_set f efuel x c ;;
            collect r (fold_left (fun a d => alist_set a (fst d) (snd d)) defs acc) c1
        end in
      doi (defs, c1) <- collect sets [] c ;;
      (Ok tt, with_st c1 (fold_left (fun st d => env_define st env (fst d) (snd d)) defs (c_st c1)))
  end

with eval_library_definition (fuel : nat) (efuel : nat) (decls : list libdecl) (c : ictx) {struct fuel}
  : ires library :=
  match fuel with
  | O => (OutOfFuel, c)
  | S f =>
      let '(lib_env, st0) := alloc_frame (c_st c) None in
      let c0 := with_st c st0 in
      let fix stmts (l : list stmt) (c : ictx) : ires unit :=
        match l with
        | [] => (Ok tt, c)
        | x :: r => doi (_, c1) <- eval_expr_or_def efuel x lib_env c ;; stmts r c1
        end in
      let fix run (ds : list libdecl) (exports : list export_spec) (c : ictx) : ires (list export_spec) :=
        match ds with
        | [] => (Ok exports, c)
        | LDImport sets _ :: r =>
            doi (_, c1) <- eval_import f efuel sets lib_env c ;; run r exports c1
        | LDExport specs _ :: r => run r (exports ++ specs) c
        | LDBegin body _ :: r => doi (_, c1) <- stmts body c ;; run r exports c1
        end in
      doi (exports, c1) <- run decls [] c0 ;;
      let fix export (xs : list export_spec) (acc : library) : res library :=
        match xs with
        | [] => Ok acc
        | x :: r =>
            let '(from, to, l) := match x with XDirect a l => (a, a, l) | XRename a b l => (a, b, l) end in
            match env_get (c_st c1) lib_env from with
            | Some v => export r (alist_set acc to v)
            | None => lerr UnboundedSymbol l
            end
        end in
      (export exports [], c1)
  end.

Definition import_fuel (c : ictx) : nat := 64.

(** eval_ast_error_no_location and eval_ast *)
Definition eval_ast (efuel : nat) (stm : stmt) (env : nat) (c : ictx) : ires (option value) :=
  let '(r, c') :=
    if negb (i_import_end (c_inst c)) then
      match stm with
      | SImport sets _ =>
          doi (_, c1) <- eval_import (import_fuel c) efuel sets env c ;; (Ok None, c1)
      | SLibrary _ _ l => (lerr ExpectSomething l, c)
      | other =>
          eval_expr_or_def efuel other env (with_inst c (set_import_end (c_inst c) true))
      end
    else eval_expr_or_def efuel stm env c in
  (relocate r (stmt_loc stm), c').

(** Interpreter::eval: parse and evaluate statement by statement; the value of the last
    statement. [trace] collects the outcome of every form (used by the correspondence). *)
Fixpoint eval_loop (fuel : nat) (efuel : nat) (s : pst) (last : option value) (c : ictx)
                   (trace : list (res (option value)))
  : ires (option value) * list (res (option value)) :=
  match fuel with
  | O => ((OutOfFuel, c), trace)
  | S f =>
      match parse_next c s with
      | (Ok (None, _), c1) => ((Ok last, c1), trace)
      | (Ok (Some stm, s1), c1) =>
          match eval_ast efuel stm (i_env (c_inst c1)) c1 with
          | (Ok v, c2) => eval_loop f efuel s1 v c2 (trace ++ [Ok v])
          | (Err k l, c2) => ((Err k l, c2), trace ++ [Err k l])
          | (Panic x, c2) => ((Panic x, c2), trace ++ [Panic x])
          | (OutOfFuel, c2) => ((OutOfFuel, c2), trace ++ [OutOfFuel])
          end
      | (Err k l, c1) => ((Err k l, c1), trace ++ [Err k l])
      | (Panic x, c1) => ((Panic x, c1), trace ++ [Panic x])
      | (OutOfFuel, c1) => ((OutOfFuel, c1), trace ++ [OutOfFuel])
      end
  end.

Definition eval_text (efuel : nat) (text : list char) (c : ictx)
  : ires (option value) * list (res (option value)) :=
  eval_loop (S (length text)) efuel (p_init text) None c [].

(** Interpreter::eval_file *)
Definition eval_file (efuel : nat) (dir : str) (file : list str) (c : ictx)
  : ires (option value) * list (res (option value)) :=
  let c0 := with_inst c (set_progdir (c_inst c) (Some dir)) in
  match read_file fs (dir, file) with
  | Ok text => eval_text efuel text c0
  | Err k l => ((Err k l, c0), [Err k l])
  | Panic x => ((Panic x, c0), [Panic x])
  | OutOfFuel => ((OutOfFuel, c0), [OutOfFuel])
  end.

End WithFs.

(** the initial syntax table: grammar.sld parsed with an empty table, every statement
    dropped (create_syntax_binding) *)
Fixpoint load_grammar (fuel : nat) (s : pst) (syn : sframe) : sframe :=
  match fuel with
  | O => syn
  | S f =>
      match read_next s with
      | Ok (Some d, s1) =>
          let '(_, e') := transform_stmt (100 * S (datum_size d)) d [syn] in
          load_grammar f s1 (match rev e' with root :: _ => root | [] => syn end)
      | _ => syn
      end
  end.
Definition initial_syntax (grammar_text : list char) : sframe :=
  load_grammar (S (length grammar_text)) (p_init grammar_text) [].

Definition ln (l : list (list Z)) : libname := map (fun x => LIdent (s x)) l.
Definition name_ruschm_base : libname := ln [[114;117;115;99;104;109]; [98;97;115;101]]%Z.
Definition name_ruschm_write : libname := ln [[114;117;115;99;104;109]; [119;114;105;116;101]]%Z.
Definition name_scheme_base : libname := ln [[115;99;104;101;109;101]; [98;97;115;101]]%Z.
Definition name_scheme_write : libname := ln [[115;99;104;101;109;101]; [119;114;105;116;101]]%Z.

Definition native_defs (t : list (str * (nat * bool))) : library :=
  map (fun e => (fst e, VProcB (fst e))) t.

(** Interpreter::default(): a fresh root frame and register_stdlib_factories (which parses
    the bundled library sources with the current syntax table and unwraps) *)
(** the table of a native library: the procedures the model knows, and - by name only - every further one that
    the Rust source registers ([names], scanned from base.rs / write.rs on every run): it is bound and can be exported
    and imported like the others; calling it is outside the model ([proc_arity] has no entry: PUnmodelled) *)
Definition native_lib (t : list (str * (nat * bool))) (names : list str) : library :=
  native_defs t ++
  map (fun n => (n, VProcB n)) (filter (fun n => negb (existsb (fun e => str_eqb n (fst e)) t)) names).

Definition new_instance (base_text write_text : list char) (base_names write_names : list str) (st : state) (syn : sframe)
  : res instance * state * sframe :=
  let '(env, st1) := alloc_frame st None in
  let i0 := {| i_env := env; i_factories := []; i_in_progress := []; i_libraries := [];
               i_import_end := false; i_progdir := None |} in
  let i1 := register_factory i0 name_ruschm_base (FNative (native_lib builtin_table base_names)) in
  let i2 := register_factory i1 name_ruschm_write (FNative (native_lib write_table write_names)) in
  let c := {| c_inst := i2; c_st := st1; c_syn := syn |} in
  match factory_from_text name_scheme_base base_text c with
  | (Ok fb, c1) =>
      let c1' := with_inst c1 (register_factory (c_inst c1) name_scheme_base fb) in
      match factory_from_text name_scheme_write write_text c1' with
      | (Ok fw, c2) =>
          (Ok (register_factory (c_inst c2) name_scheme_write fw), c_st c2, c_syn c2)
      | (_, c2) => (Panic PStdlibUnwrap, c_st c2, c_syn c2)
      end
  | (_, c1) => (Panic PStdlibUnwrap, c_st c1, c_syn c1)
  end.

Definition default_efuel : nat := Nat.mul 1000 1000.

(** Interpreter::new_with_stdlib(): import (scheme base) (scheme write), unwrapped *)
Definition import_stdlib (fs : filesys) (cwd : str) (c : ictx) : ires unit :=
  match eval_import fs cwd 64 default_efuel
          [IDirect name_scheme_base None; IDirect name_scheme_write None] (i_env (c_inst c)) c with
  | (Ok _, c1) => (Ok tt, c1)
  | (_, c1) => (Panic PStdlibUnwrap, c1)
  end.
