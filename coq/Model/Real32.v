(** binary32 (Rust f32) and binary64 arithmetic for the Ruschm model, on top of Flocq.
    No proofs here. *)
From Coq Require Import ZArith List Bool.
From Flocq Require Import Core.Zaux Core.FLX IEEE754.BinarySingleNaN.
Local Open Scope Z_scope.

#[export] Instance Hprec32 : FLX.Prec_gt_0 24 := eq_refl _.
#[export] Instance Hemax32 : Prec_lt_emax 24 128 := eq_refl _.
#[export] Instance Hprec64 : FLX.Prec_gt_0 53 := eq_refl _.
#[export] Instance Hemax64 : Prec_lt_emax 53 1024 := eq_refl _.

Definition f32 := binary_float 24 128.
Definition f64 := binary_float 53 1024.

Definition f32_nan : f32 := B754_nan.
Definition f32_zero (s : bool) : f32 := B754_zero s.
Definition f32_inf (s : bool) : f32 := B754_infinity s.

(** [R::from(i32)] / [i as f32]: round to nearest even *)
Definition f32_of_Z (z : Z) : f32 := binary_normalize 24 128 _ _ mode_NE z 0 false.
(** exact value m * 2^e when representable, nearest otherwise *)
Definition f32_of_me (m e : Z) (szero : bool) : f32 := binary_normalize 24 128 _ _ mode_NE m e szero.
Definition f64_of_me (m e : Z) (szero : bool) : f64 := binary_normalize 53 1024 _ _ mode_NE m e szero.

Definition fadd (a b : f32) : f32 := Bplus mode_NE a b.
Definition fsub (a b : f32) : f32 := Bminus mode_NE a b.
Definition fmul (a b : f32) : f32 := Bmult mode_NE a b.
Definition fdiv (a b : f32) : f32 := Bdiv mode_NE a b.
Definition fsqrt (a : f32) : f32 := Bsqrt mode_NE a.
Definition fabs (a : f32) : f32 := Babs a.
Definition ffloor (a : f32) : f32 := Bnearbyint mode_DN a.
Definition fceil (a : f32) : f32 := Bnearbyint mode_UP a.
(** f32::round : half away from zero *)
Definition fround (a : f32) : f32 := Bnearbyint mode_NA a.
Definition feqb (a b : f32) : bool := Beqb a b.
Definition fltb (a b : f32) : bool := Bltb a b.
Definition fleb (a b : f32) : bool := Bleb a b.
Definition fis_nan (a : f32) : bool := match a with B754_nan => true | _ => false end.
Definition fis_finite (a : f32) : bool :=
  match a with B754_finite _ _ _ _ => true | B754_zero _ => true | _ => false end.
(** truncation towards zero of a finite number; 0 for the others *)
Definition ftruncZ (a : f32) : Z := Btrunc a.

(** f64 -> f32 ([as f32]): round to nearest even *)
Definition f32_of_f64 (x : f64) : f32 :=
  match x with
  | B754_zero s => B754_zero s
  | B754_infinity s => B754_infinity s
  | B754_nan => B754_nan
  | B754_finite s m e _ => f32_of_me (cond_Zopp s (Zpos m)) e s
  end.

(** IEEE bit pattern (NaN canonical, 0x7fc00000) *)
Definition bits_of_f32 (x : f32) : Z :=
  match x with
  | B754_zero s => if s then 2147483648 else 0
  | B754_infinity s => (if s then 2147483648 else 0) + 2139095040
  | B754_nan => 2143289344
  | B754_finite s m e _ =>
      (if s then 2147483648 else 0) +
      (if Zpos m <? 8388608 then Zpos m else (e + 150) * 8388608 + (Zpos m - 8388608))
  end.

Definition f32_of_bits (b : Z) : f32 :=
  let s := 2147483648 <=? b in
  let r := if s then b - 2147483648 else b in
  let ex := r / 8388608 in
  let fr := r mod 8388608 in
  if ex =? 255 then (if fr =? 0 then B754_infinity s else B754_nan)
  else if ex =? 0 then
    (if fr =? 0 then B754_zero s else f32_of_me (cond_Zopp s fr) (-149) s)
  else f32_of_me (cond_Zopp s (fr + 8388608)) (ex - 150) s.

(** number of binary digits of a non-negative integer *)
Definition zbits (z : Z) : Z := Z.log2 z + 1.

(** Correctly rounded (nearest even) binary64 of the rational [sign * n / d], n >= 0, d > 0. *)
Definition f64_of_ratio (s : bool) (n d : Z) : f64 :=
  if n =? 0 then B754_zero s else
  let k := Z.max 0 (56 + zbits d - zbits n) in
  let num := n * 2 ^ k in
  let q := num / d in
  let r := num mod d in
  let m := 2 * q + (if r =? 0 then 0 else 1) in
  f64_of_me (cond_Zopp s m) (- k - 1) s.

(** Decimal literal [sign mant * 10^e10], as Rust's [str::parse::<f64>() as f32]:
    nearest binary64, then nearest binary32. [mant >= 0]. Exponents far outside the
    binary64 range are clamped (the result is then an infinity or a zero anyway). *)
Definition f64_of_decimal (s : bool) (mant e10 : Z) : f64 :=
  if mant =? 0 then B754_zero s
  else
    let nd := Z.log2 mant / 3 + 1 in    (* >= number of decimal digits / 1.1; only for clamping *)
    if 400 <? e10 then B754_infinity s
    else if e10 + 4 * nd <? -400 then B754_zero s
    else if 0 <=? e10 then f64_of_me (cond_Zopp s (mant * 10 ^ e10)) 0 s
    else f64_of_ratio s mant (10 ^ (- e10)).

Definition f32_of_decimal (s : bool) (mant e10 : Z) : f32 :=
  f32_of_f64 (f64_of_decimal s mant e10).

Definition fcompare (a b : f32) : option comparison := Bcompare a b.
