(** Model of the datum -> AST transformer of src/parser/parser.rs (the transform_ functions), including
    macro expansion and the syntax environment. The syntax environment is a stack of
    keyword tables, innermost first; the last table is the root one, which in the code is
    the thread-local BINDINGS shared by every parser of the thread. define-syntax mutates
    the innermost table at transformation time, and that mutation survives a later error
    of the same form, so the monad returns the environment on errors too. *)
From Coq Require Import ZArith NArith List Bool.
From RV Require Import Model.Common Model.Datum Model.Macro Model.Ast.
Import ListNotations.

Definition sframe := list (str * transformer).
Definition senv := list sframe.

Fixpoint sframe_get (f : sframe) (k : str) : option transformer :=
  match f with
  | [] => None
  | (y, t) :: r => if str_eqb k y then Some t else sframe_get r k
  end.
Fixpoint sframe_set (f : sframe) (k : str) (t : transformer) : sframe :=
  match f with
  | [] => [(k, t)]
  | (y, u) :: r => if str_eqb k y then (y, t) :: r else (y, u) :: sframe_set r k t
  end.
Fixpoint senv_get (e : senv) (k : str) : option transformer :=
  match e with
  | [] => None
  | f :: r => match sframe_get f k with Some t => Some t | None => senv_get r k end
  end.
Definition senv_define (e : senv) (k : str) (t : transformer) : senv :=
  match e with
  | [] => [[(k, t)]]
  | f :: r => sframe_set f k t :: r
  end.

(** state-and-error monad over the syntax environment *)
Definition M (A : Type) := senv -> res A * senv.
Definition ret {A} (a : A) : M A := fun e => (Ok a, e).
Definition lift {A} (r : res A) : M A := fun e => (r, e).
Definition bindM {A B} (m : M A) (f : A -> M B) : M B :=
  fun e => match m e with
           | (Ok a, e') => f a e'
           | (Err k l, e') => (Err k l, e')
           | (Panic s, e') => (Panic s, e')
           | (OutOfFuel, e') => (OutOfFuel, e')
           end.
Notation "'dom' x <- r ;; k" := (bindM r (fun x => k))
  (at level 200, x pattern, r at level 100, k at level 200, right associativity).

(** run [m] in a child scope (LexicalScope::new_child), dropped afterwards *)
Definition in_child {A} (m : M A) : M A :=
  fun e => match m ([] :: e) with (r, e') => (r, tl e') end.

Fixpoint mapMM {A B} (f : A -> M B) (l : list A) : M (list B) :=
  match l with
  | [] => ret []
  | x :: xs => dom y <- f x ;; dom ys <- mapMM f xs ;; ret (y :: ys)
  end.

(** keywords *)
Definition k_define : str := [100;101;102;105;110;101]%N.
Definition k_define_library : str := [100;101;102;105;110;101;45;108;105;98;114;97;114;121]%N.
Definition k_lambda : str := [108;97;109;98;100;97]%N.
Definition k_if : str := [105;102]%N.
Definition k_import : str := [105;109;112;111;114;116]%N.
Definition k_quote : str := [113;117;111;116;101]%N.
Definition k_set : str := [115;101;116;33]%N.
Definition k_define_syntax : str := [100;101;102;105;110;101;45;115;121;110;116;97;120]%N.
Definition k_only : str := [111;110;108;121]%N.
Definition k_except : str := [101;120;99;101;112;116]%N.
Definition k_prefix : str := [112;114;101;102;105;120]%N.
Definition k_rename : str := [114;101;110;97;109;101]%N.
Definition k_export : str := [101;120;112;111;114;116]%N.
Definition k_begin : str := [98;101;103;105;110]%N.

(** unwrap_non_end *)
Definition next_or_end {A} (l : list A) : res (A * list A) :=
  match l with x :: r => Ok (x, r) | [] => err UnexpectedEnd end.

(** Datum::expect_list *)
Definition expect_list (d : datum) : res datum :=
  if is_pair_datum d then Ok d else err ExpectSomething.

Definition transform_identifier (d : datum) : res str :=
  match d with
  | DSym s _ => Ok s
  | other => lerr ExpectSomething (dloc other)
  end.

(** transform_formals: every leaf reached through cars and cdrs must be an identifier
    (depth first, left to right: GenericPair::map_ok), then every formal must be a name *)
Fixpoint formals_leaves (d : datum) : res unit :=
  match d with
  | DNil _ => Ok tt
  | DCons a b _ =>
      do _ <- (match a with
               | DNil _ | DCons _ _ _ => formals_leaves a
               | other => do _ <- transform_identifier other ;; Ok tt
               end) ;;
      match b with
      | DNil _ | DCons _ _ _ => formals_leaves b
      | other => do _ <- transform_identifier other ;; Ok tt
      end
  | other => do _ <- transform_identifier other ;; Ok tt
  end.

Fixpoint formals_spine (d : datum) : res (list str * option str) :=
  match d with
  | DNil _ => Ok ([], None)
  | DCons a b _ =>
      match a with
      | DSym x _ =>
          do r <- formals_spine b ;; let '(fx, rs) := r in Ok (x :: fx, rs)
      | _ => err IllegalParameter
      end
  | DSym x _ => Ok ([], Some x)
  | _ => err IllegalParameter
  end.

Definition transform_formals (d : datum) : res formals :=
  do _ <- formals_leaves d ;;
  do r <- formals_spine d ;;
  let '(fx, rs) := r in Ok {| f_fixed := fx; f_rest := rs |}.

(** patterns *)
Fixpoint transform_pattern (d : datum) : pattern :=
  match d with
  | DSym s l => if str_eqb s s_underscore then PUnderscore l
                else if str_eqb s s_ellipsis then PEllipsis l
                else PIdent s l
  | DPrim p l => PLit p l
  | DNil l => PNil l
  | DCons a b l =>
      (* map_ok: a car or cdr that is itself a pair is rebuilt without location *)
      let sub (x : datum) (px : pattern) :=
        match x with
        | DNil _ => PNil None
        | DCons _ _ _ => match px with PCons c d' _ => PCons c d' None | other => other end
        | _ => px
        end in
      PCons (sub a (transform_pattern a)) (sub b (transform_pattern b)) l
  | DVec v l => PVec (map transform_pattern v) l
  end.

(** templates *)
Fixpoint collect_elements (ts : list (datum * template)) (last : option template)
  : res (list (template * bool)) :=
  match ts with
  | [] => Ok (match last with Some t => [(t, false)] | None => [] end)
  | (d, t) :: r =>
      match d with
      | DSym s l =>
          if str_eqb s s_ellipsis then
            match last with
            | Some lt => do rest <- collect_elements r None ;; Ok ((lt, true) :: rest)
            | None => lerr UnexpectedDatum l
            end
          else
            do rest <- collect_elements r (Some t) ;;
            Ok (match last with Some lt => (lt, false) :: rest | None => rest end)
      | _ =>
          do rest <- collect_elements r (Some t) ;;
          Ok (match last with Some lt => (lt, false) :: rest | None => rest end)
      end
  end.

Fixpoint transform_template (fuel : nat) (d : datum) : res template :=
  match fuel with
  | O => OutOfFuel
  | S f =>
      let elems (items : list datum) : res (list (template * bool)) :=
        (* an element that is the ellipsis symbol is never transformed itself *)
        do ts <- mapM (fun x =>
                         match x with
                         | DSym s l => if str_eqb s s_ellipsis then Ok (x, TId s l)
                                       else do t <- transform_template f x ;; Ok (x, t)
                         | _ => do t <- transform_template f x ;; Ok (x, t)
                         end) items ;;
        collect_elements ts None in
      match d with
      | DSym s l => Ok (TId s l)
      | DPrim p l => Ok (TLit p l)
      | DNil l => Ok (TList [] l)
      | DCons _ _ l => do els <- elems (datum_items d) ;; Ok (TList els l)
      | DVec v l => do els <- elems v ;; Ok (TVecT els l)
      end
  end.

(** transform_pattern_root *)
Definition transform_pattern_root (keyword : str) (d : datum) : res pattern :=
  match d with
  | DNil _ => err UnexpectedEnd
  | DCons first rest _ =>
      if is_pair_datum rest then
        match first with
        | DSym k l =>
            if str_eqb k keyword then
              Ok (match transform_pattern rest with
                  | PNil _ => PNil l
                  | PCons a b _ => PCons a b l
                  | other => other
                  end)
            else lerr MacroKeywordMissMatch l
        | _ => err ExpectSomething
        end
      else err ExpectSomething    (* pop_proper on an improper list *)
  | _ => err ExpectSomething
  end.

Definition transform_syntax_rule (keyword : str) (d : datum) : res (pattern * template) :=
  do l <- expect_list d ;;
  do x <- next_or_end (datum_items l) ;;
  let '(pd, r) := x in
  do pl <- expect_list pd ;;
  do p <- transform_pattern_root keyword pl ;;
  do y <- next_or_end r ;;
  let '(td, _) := y in
  do t <- transform_template (S (datum_size td)) td ;;
  Ok (p, t).

Definition transform_transformer (keyword : str) (d : datum) : res transformer :=
  do l <- expect_list d ;;
  let items := tl (datum_items l) in           (* skips the symbol syntax-rules, unchecked *)
  do x <- next_or_end items ;;
  let '(first, r) := x in
  do y <- (match first with
           | DSym e _ =>
               do z <- next_or_end r ;;
               let '(ld, r') := z in
               do ll <- expect_list ld ;;
               do lits <- mapM transform_identifier (datum_items ll) ;;
               Ok (Some e, lits, r')
           | DNil _ | DCons _ _ _ =>
               do lits <- mapM transform_identifier (datum_items first) ;;
               Ok (None, lits, r)
           | other => lerr UnexpectedDatum (dloc other)
           end) ;;
  let '(ell, lits, rules_d) := y in
  do rules <- mapM (transform_syntax_rule keyword) rules_d ;;
  Ok {| t_ellipsis := ell; t_literals := lits; t_rules := rules |}.

(** import sets and library syntax *)
Definition transform_library_name_part (d : datum) : res libname_elem :=
  match d with
  | DSym s _ => Ok (LIdent s)
  | DPrim (PInt i) l => if (0 <=? i)%Z then Ok (LInt i) else lerr UnexpectedDatum l
  | other => lerr UnexpectedDatum (dloc other)
  end.

Definition transform_identifier_pair (d : datum) : res (str * str) :=
  do l <- expect_list d ;;
  do x <- next_or_end (datum_items l) ;;
  let '(a, r) := x in
  do a' <- transform_identifier a ;;
  do y <- next_or_end r ;;
  let '(b, _) := y in
  do b' <- transform_identifier b ;;
  Ok (a', b').

Fixpoint transform_import_set (fuel : nat) (d : datum) : res import_set :=
  match fuel with
  | O => OutOfFuel
  | S f =>
      do l <- expect_list d ;;
      let items := datum_items l in
      do x <- next_or_end items ;;
      let '(first, r) := x in
      let loc0 := dloc first in
      do spec <- transform_identifier first ;;
      if str_eqb spec k_only then
        do y <- next_or_end r ;; let '(sd, ids) := y in
        do sub <- transform_import_set f sd ;;
        do ids' <- mapM transform_identifier ids ;;
        Ok (IOnly sub ids' loc0)
      else if str_eqb spec k_except then
        do y <- next_or_end r ;; let '(sd, ids) := y in
        do sub <- transform_import_set f sd ;;
        do ids' <- mapM transform_identifier ids ;;
        Ok (IExcept sub ids' loc0)
      else if str_eqb spec k_prefix then
        do y <- next_or_end r ;; let '(sd, r2) := y in
        do sub <- transform_import_set f sd ;;
        do z <- next_or_end r2 ;; let '(pd, _) := z in
        do p <- transform_identifier pd ;;
        Ok (IPrefix sub p loc0)
      else if str_eqb spec k_rename then
        do y <- next_or_end r ;; let '(sd, prs) := y in
        do sub <- transform_import_set f sd ;;
        do prs' <- mapM transform_identifier_pair prs ;;
        Ok (IRename sub prs' loc0)
      else
        do n <- mapM transform_library_name_part items ;;
        Ok (IDirect n loc0)
  end.

Definition transform_import_decl (ds : list datum) : res (list import_set) :=
  mapM (fun d => transform_import_set (S (datum_size d)) d) ds.

Definition transform_export_spec (d : datum) : res export_spec :=
  match d with
  | DSym x l => Ok (XDirect x l)
  | DNil _ => err UnexpectedEnd
  | DCons _ _ l =>
      do x <- next_or_end (datum_items d) ;;
      let '(first, r) := x in
      match first with
      | DSym s _ =>
          if str_eqb s k_rename then
            do y <- next_or_end r ;; let '(a, r2) := y in
            do a' <- transform_identifier a ;;
            do z <- next_or_end r2 ;; let '(b, _) := z in
            do b' <- transform_identifier b ;;
            Ok (XRename a' b' l)
          else err UnexpectedDatum
      | _ => err UnexpectedDatum
      end
  | _ => err UnexpectedDatum
  end.

(** transform_to_statement and the forms it dispatches to, on one fuel (macro expansion
    need not terminate) *)
(** one level of transform_to_statement; [rec] transforms the sub-forms (the same function with
    less fuel) *)
Definition to_expr_with (rec : datum -> M stmt) (x : datum) : M expr :=
  dom s <- rec x ;;
  match s with SExpr e => ret e | _ => lift (err ExpectSomething) end.

(** a procedure body: definitions first, then at least one expression *)
Fixpoint body_go (rec : datum -> M stmt) (ds : list datum) (defs : list (str * expr * loc)) (exprs : list expr)
  : M (list (str * expr * loc) * list expr) :=
  match ds with
  | [] => match exprs with
          | [] => lift (err LambdaBodyNoExpression)
          | _ => ret (rev defs, rev exprs)
          end
  | x :: r =>
      dom s <- rec x ;;
      match s with
      | SDef n e l =>
          match exprs with
          | [] => body_go rec r ((n, e, l) :: defs) exprs
          | _ => lift (lerr InvalidDefinitionContext l)
          end
      | SExpr e => body_go rec r defs (e :: exprs)
      | _ => lift (lerr ExpectSomething (dloc x))
      end
  end.
Definition body_with (rec : datum -> M stmt) (ds : list datum) : M (list (str * expr * loc) * list expr) :=
  body_go rec ds [] [].

Definition transform_step (rec : datum -> M stmt) (d : datum) : M stmt :=
  let l := dloc d in
  match d with
  | DPrim p _ => ret (SExpr (EPrim p l))
  | DSym s _ => ret (SExpr (ESym s l))
  | DVec _ _ => ret (SExpr (EDatum d l))
  | DNil _ => lift (err EmptyCall)
  | DCons first rest _ =>
      if negb (is_pair_datum rest) then lift (err ExpectSomething)
      else
        let items := datum_items rest in
        let call : M stmt :=
          dom fe <- (to_expr_with rec) first ;;
          dom args <- mapMM (to_expr_with rec) items ;;
          ret (SExpr (ECall fe args l)) in
        match first with
        | DSym kw _ =>
            if str_eqb kw k_define then
              dom x <- lift (next_or_end items) ;;
              let '(fst_d, r) := x in
              match fst_d with
              | DSym name _ =>
                  dom y <- lift (next_or_end r) ;;
                  let '(bd, _) := y in
                  dom e <- (to_expr_with rec) bd ;;
                  ret (SDef name e l)
              | DCons nm fm_d _ =>
                  dom name <- lift (transform_identifier nm) ;;
                  dom fm <- lift (transform_formals fm_d) ;;
                  dom b <- body_with rec r ;;
                  let '(defs, exprs) := b in
                  ret (SDef name (ELambda fm defs exprs (dloc nm)) l)
              | DNil fl => lift (lerr InvalidDefinition fl)
              | other => lift (lerr DefineNonSymbol (dloc other))
              end
            else if str_eqb kw k_define_library then
              dom x <- lift (next_or_end items) ;;
              let '(nd, decls) := x in
              dom nl <- lift (expect_list nd) ;;
              dom name <- lift (mapM transform_library_name_part (datum_items nl)) ;;
              dom ds <- mapMM (fun dd : datum =>
                  let dl := dloc dd in
                  dom ll <- lift (expect_list dd) ;;
                  let its := datum_items ll in
                  dom h <- lift (next_or_end its) ;;
                  let '(hd0, r) := h in
                  match hd0 with
                  | DSym s _ =>
                      if str_eqb s k_export then
                        dom sp <- lift (mapM transform_export_spec r) ;; ret (LDExport sp dl)
                      else if str_eqb s k_begin then
                        dom st <- mapMM (rec) r ;; ret (LDBegin st dl)
                      else dom im <- lift (transform_import_decl r) ;; ret (LDImport im dl)
                  | _ => dom im <- lift (transform_import_decl r) ;; ret (LDImport im dl)
                  end) decls ;;
              ret (SLibrary name ds l)
            else if str_eqb kw k_lambda then
              dom x <- lift (next_or_end items) ;;
              let '(fm_d, r) := x in
              dom fm <- lift (transform_formals fm_d) ;;
              dom b <- in_child (body_with rec r) ;;
              let '(defs, exprs) := b in
              ret (SExpr (ELambda fm defs exprs l))
            else if str_eqb kw k_if then
              dom x <- lift (next_or_end items) ;; let '(td, r) := x in
              dom te <- (to_expr_with rec) td ;;
              dom y <- lift (next_or_end r) ;; let '(cd, r2) := y in
              dom ce <- (to_expr_with rec) cd ;;
              match r2 with
              | [] => ret (SExpr (EIf te ce None l))
              | ad :: _ => dom ae <- (to_expr_with rec) ad ;; ret (SExpr (EIf te ce (Some ae) l))
              end
            else if str_eqb kw k_import then
              dom sets <- lift (transform_import_decl items) ;; ret (SImport sets l)
            else if str_eqb kw k_quote then
              dom x <- lift (next_or_end items) ;; let '(q, _) := x in
              ret (SExpr (EQuote q l))
            else if str_eqb kw k_set then
              dom x <- lift (next_or_end items) ;; let '(sd, r) := x in
              match sd with
              | DSym name _ =>
                  dom y <- lift (next_or_end r) ;; let '(bd, _) := y in
                  dom e <- (to_expr_with rec) bd ;;
                  ret (SExpr (ESet name e l))
              | _ => lift (err DefineNonSymbol)
              end
            else if str_eqb kw k_define_syntax then
              dom x <- lift (next_or_end items) ;; let '(kd, r) := x in
              dom keyword <- lift (transform_identifier kd) ;;
              dom y <- lift (next_or_end r) ;; let '(td, _) := y in
              dom tr <- lift (transform_transformer keyword td) ;;
              fun e => (Ok (SSyntaxDef keyword tr l), senv_define e keyword tr)
            else
              fun e =>
                match senv_get e kw with
                | Some tr =>
                    (dom ex <- lift (transform_use tr (set_dloc rest l)) ;;
                     rec (set_dloc ex (loc_or (dloc ex) l))) e
                | None => call e
                end
        | _ => call
        end
  end.

Fixpoint transform_stmt (fuel : nat) (d : datum) : M stmt :=
  match fuel with
  | O => lift OutOfFuel
  | S f => transform_step (transform_stmt f) d
  end.
