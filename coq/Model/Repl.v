(** Model of src/repl.rs: the bracket test that decides when the accumulated input is
    submitted, and the read-eval-print loop over input lines. *)
From Coq Require Import ZArith NArith List Bool.
From RV Require Import Model.Common Model.Datum Model.Lexer Model.Reader Model.Macro Model.Ast Model.Transform
  Model.Value Model.Print Model.Builtins Model.Eval Model.Interp.
Import ListNotations.

Inductive bstate := BCode | BComment | BStr | BStrEscape | BHash | BHashBackslash | BBar.

(** one character of check_bracket_closed: (state, count) *)
Definition bstep (sc : bstate * Z) (c : char) : bstate * Z :=
  let '(st, n) := sc in
  match st with
  | BCode =>
      if N.eqb c c_lparen then (BCode, (n + 1)%Z)
      else if N.eqb c c_rparen then (BCode, (n - 1)%Z)
      else if N.eqb c c_semi then (BComment, n)
      else if N.eqb c c_dquote then (BStr, n)
      else if N.eqb c c_bar then (BBar, n)
      else if N.eqb c c_hash then (BHash, n)
      else (BCode, n)
  | BHash =>
      if N.eqb c c_lparen then (BCode, (n + 1)%Z)
      else if N.eqb c c_backslash then (BHashBackslash, n)
      else (BCode, n)
  | BComment => if N.eqb c c_nl || N.eqb c c_cr then (BCode, n) else (BComment, n)
  | BStr => if N.eqb c c_dquote then (BCode, n) else if N.eqb c c_backslash then (BStrEscape, n) else (BStr, n)
  | BStrEscape => (BStr, n)
  | BBar => if N.eqb c c_bar then (BCode, n) else (BBar, n)
  | BHashBackslash => (BCode, n)
  end.

Definition bscan_from (sc : bstate * Z) (text : list char) : bstate * Z := fold_left bstep text sc.
Definition bscan (text : list char) : bstate * Z := bscan_from (BCode, 0%Z) text.

Definition check_bracket_closed (text : list char) : bool := (snd (bscan text) <=? 0)%Z.

(** what one submission prints: the standard output of the evaluation, then the value of the
    last form (nothing for definitions and Void), or one error line on standard error *)
Record repl_state := { r_pending : list char; r_ctx : ictx; r_out : list char; r_errors : list errkind }.

Definition value_line (st : state) (o : option value) : list char :=
  match o with
  | None => []
  | Some VVoid => []
  | Some v => match display display_fuel st v with
              | Some t => t ++ [10%N]
              | None => []
              end
  end.

(** take the standard output accumulated in the state *)
Definition drain (c : ictx) : list char * ictx :=
  (out (c_st c),
   with_st c {| frames := frames (c_st c); vectors := vectors (c_st c); out := []; ticks := ticks (c_st c) |}).

Section WithFs.
Variable fs : filesys.
Variable cwd : str.

Definition repl_line (efuel : nat) (rs : repl_state) (line : list char) : repl_state :=
  match line with
  | [] => rs
  | _ =>
      let src := r_pending rs ++ line in
      if check_bracket_closed src then
        let '((r, c), _) := eval_text fs cwd efuel src (r_ctx rs) in
        let '(o, c') := drain c in
        match r with
        | Ok v => {| r_pending := []; r_ctx := c'; r_out := r_out rs ++ o ++ value_line (c_st c') v;
                     r_errors := r_errors rs |}
        | Err k _ => {| r_pending := []; r_ctx := c'; r_out := r_out rs ++ o; r_errors := r_errors rs ++ [k] |}
        | Panic _ => {| r_pending := []; r_ctx := c'; r_out := r_out rs ++ o; r_errors := r_errors rs ++ [LogicExtension] |}
        | OutOfFuel => {| r_pending := []; r_ctx := c'; r_out := r_out rs ++ o; r_errors := r_errors rs ++ [SyntaxExtension] |}
        end
      else {| r_pending := src ++ [10%N]; r_ctx := r_ctx rs; r_out := r_out rs; r_errors := r_errors rs |}
  end.

Definition repl_run (efuel : nat) (c : ictx) (lines : list (list char)) : repl_state :=
  fold_left (repl_line efuel) lines {| r_pending := []; r_ctx := c; r_out := []; r_errors := [] |}.
End WithFs.
