(** Conventions shared by the whole model: characters, strings, locations, outcomes. *)
From Coq Require Import ZArith NArith List Bool.
Import ListNotations.

Definition char := N.          (* a Unicode scalar value *)
Definition str := list char.
Definition loc := option (N * N).   (* Option<[u32; 2]> : line, column *)

Fixpoint str_eqb (a b : str) : bool :=
  match a, b with
  | [], [] => true
  | x :: a', y :: b' => N.eqb x y && str_eqb a' b'
  | _, _ => false
  end.

(** SyntaxError, LogicError and ErrorData::IO variants; messages are not modelled. *)
Inductive errkind :=
  | TokenMisMatch | UnexpectedCharacter | UnexpectedToken | UnexpectedDatum | UnexpectedPattern
  | UnexpectedTemplate | UnexpectedEnd | UnrecognizedToken | UnknownEscape | UnmatchedParentheses
  | DefineNonSymbol | IllegalParameter | InvalidDefinition | LambdaBodyNoExpression
  | ExpectSomething | IllegalSubImport | InvalidIdentifier | ImcompleteQuotedIdent
  | RationalDivideByZero | EmptyCall | IllegalPattern | IllegalDefinition
  | InvalidDefinitionContext | MacroMissMatch | MacroKeywordMissMatch | TransformOutMultipleDatum
  | SyntaxExtension
  | UnboundedSymbol | TypeMisMatch | UnexpectedExpression | DivisionByZero | InExactConversion
  | InproperList | NegativeLength | VectorIndexOutOfBounds | ArgumentMissMatch | RequiresMutable
  | MetaCircularSyntax | LogicExtension | LibraryNotFound | LibraryImportCyclic
  | IOError.

Definition errkind_eqb (a b : errkind) : bool.
Proof. destruct a eqn:Ha; destruct b eqn:Hb;
  match goal with
  | |- _ => match type of Ha with _ = ?x => match type of Hb with _ = x => exact true end end
  | |- _ => exact false
  end.
Defined.

(** Sites at which the Rust code can panic. Every one is an explicit outcome of the model. *)
Inductive panic_site :=
  | PSubstGetMut        (* macros.rs: substitutions.get_mut(&var).unwrap() *)
  | PArgNextUnwrap      (* apply_scheme_procedure: arg_iter.next().unwrap() *)
  | PEmptyBody          (* apply_scheme_procedure: unreachable!() on an empty body *)
  | PAsName             (* ParameterFormals::as_name: unreachable!() *)
  | PBuiltinArg         (* native builtins: iter.next().unwrap() *)
  | PStdlibUnwrap       (* register_stdlib_factories / import_stdlib: unwrap() *)
  | PFromPairIter       (* pair.rs GenericPair::from_pair_iter: todo!() *)
  | PUnmodelled.        (* model limitation, never a Rust behaviour *)

Inductive res (A : Type) :=
  | Ok (a : A)
  | Err (k : errkind) (l : loc)
  | Panic (s : panic_site)
  | OutOfFuel.
Arguments Ok {A} a.
Arguments Err {A} k l.
Arguments Panic {A} s.
Arguments OutOfFuel {A}.

Definition bind {A B} (r : res A) (f : A -> res B) : res B :=
  match r with
  | Ok a => f a
  | Err k l => Err k l
  | Panic s => Panic s
  | OutOfFuel => OutOfFuel
  end.

Notation "'do' x <- r ;; k" := (bind r (fun x => k))
  (at level 200, x pattern, r at level 100, k at level 200, right associativity).

Definition err {A} (k : errkind) : res A := Err k None.
Definition lerr {A} (k : errkind) (l : loc) : res A := Err k l.

(** [Option::or] on locations: keep a present location *)
Definition loc_or (a b : loc) : loc := match a with Some _ => a | None => b end.

Definition relocate {A} (r : res A) (l : loc) : res A :=
  match r with Err k l0 => Err k (loc_or l0 l) | _ => r end.

Fixpoint mapM {A B} (f : A -> res B) (l : list A) : res (list B) :=
  match l with
  | [] => Ok []
  | x :: xs => do y <- f x ;; do ys <- mapM f xs ;; Ok (y :: ys)
  end.
