(** C02  Tail calls run in bounded space.
    Property theorems only. [deval_expr], [dtramp], ... are the evaluator with the depth counter
    of the verification hook threaded (Model/EvalD.v); a [dstate] is (current depth, maximal depth).
    What a proof can carry is the logic of the trampoline; bytes of machine stack per level and the
    live heap are measured by the check, not proved. *)
From Coq Require Import List.
From RV Require Import Model.Common Model.Ast Model.Value Model.Builtins Model.Eval Model.EvalD
  Spec.EvalSpec Proofs.EvalProofs Proofs.DepthProofs.
Import ListNotations.

(** the instrumented evaluator computes the values and states of the plain one (to which the
    theorems of C01 apply): "the loop computes the same result" *)
Theorem C02_same_values : forall f e env st d, proj (deval_expr f e env st d) = eval_expr f e env st.
Proof. exact (fun f => e_expr f (erase_all f)). Qed.
Theorem C02_same_values_apply : forall f p args env st d,
  proj (dapply_proc f p args env st d) = apply_proc f p args env st.
Proof. exact (fun f => e_proc f (erase_all f)). Qed.

(** every call returns at the depth at which it was entered *)
Theorem C02_depth_restored : forall f e env st d r st' d',
  deval_expr f e env st d = (r, st', d') -> fst d' = fst d /\ snd d <= snd d'.
Proof. exact depth_restored_expr. Qed.

(** a procedure reached through a tail call is entered at the depth of its caller *)
Theorem C02_tail_call_no_depth : forall f fm defs body closure args env st d fe aes le st1 d1 first st2 d2 vs st3 d3,
  arity_ok (length args) (length (f_fixed fm)) (match f_rest fm with Some _ => true | None => false end) = true ->
  dapply_scheme f fm defs body closure args st d = (Ok (TRCall fe aes le), st1, d1) ->
  deval_expr f fe le st1 d1 = (Ok first, st2, d2) ->
  deval_args f aes le st2 d2 = (Ok vs, st3, d3) ->
  is_proc first = true ->
  dtramp (S f) (VProcU fm defs body closure) args env st d = dtramp f first vs env st3 d3 /\
  fst d3 = fst d.
Proof. exact tail_call_no_depth. Qed.

(** the loop rule: if every single iteration stays within [D] levels and re-establishes the
    invariant, the whole run stays within [D] levels - the number of iterations does not appear *)
Theorem C02_loop_bounded_depth : forall (Inv : value -> list value -> state -> Prop) (D : nat),
  (forall args st, ~ Inv (VProcB apply_name) args st) ->
  (forall f fm defs body closure args st d,
    Inv (VProcU fm defs body closure) args st ->
    match dapply_scheme f fm defs body closure args st d with
    | (Ok (TRCall fe aes le), st1, d1) =>
        match deval_expr f fe le st1 d1 with
        | (Ok first, st2, d2) =>
            match deval_args f aes le st2 d2 with
            | (Ok vs, st3, d3) => within D d d3 /\ (is_proc first = true -> Inv first vs st3)
            | (_, _, d3) => within D d d3
            end
        | (_, _, d2) => within D d d2
        end
    | (_, _, d1) => within D d d1
    end) ->
  forall f p args env st d, Inv p args st -> within D d (dfin (dtramp f p args env st d)).
Proof. exact loop_bounded_depth. Qed.
