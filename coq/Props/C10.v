(** C10  Numeric comparison is the mathematical order. Property theorems only. *)
From Coq Require Import ZArith QArith Qminmax.
From RV Require Import Model.Common Model.Real32 Model.Num Spec.NumSpec Proofs.NumProofs.

Theorem C10_cmp_is_Q_order : forall a b, wf a -> wf b -> is_exact a = true -> is_exact b = true ->
  num_cmp a b = Some (qval a ?= qval b)%Q.
Proof. exact cmp_exact. Qed.
Theorem C10_lt : forall a b, wf a -> wf b -> is_exact a = true -> is_exact b = true ->
  (num_ltb a b = true <-> (qval a < qval b)%Q).
Proof. exact lt_exact. Qed.
Theorem C10_gt : forall a b, wf a -> wf b -> is_exact a = true -> is_exact b = true ->
  (num_gtb a b = true <-> (qval b < qval a)%Q).
Proof. exact gt_exact. Qed.
Theorem C10_le : forall a b, wf a -> wf b -> is_exact a = true -> is_exact b = true ->
  (num_leb a b = true <-> (qval a <= qval b)%Q).
Proof. exact le_exact. Qed.
Theorem C10_ge : forall a b, wf a -> wf b -> is_exact a = true -> is_exact b = true ->
  (num_geb a b = true <-> (qval b <= qval a)%Q).
Proof. exact ge_exact. Qed.
Theorem C10_eq : forall a b, wf a -> wf b -> is_exact a = true -> is_exact b = true ->
  (num_eqb a b = true <-> (qval a == qval b)%Q).
Proof. exact eq_exact. Qed.

(** an exact operand is compared with an inexact one after conversion to binary32 *)
Theorem C10_mixed : forall a b, is_exact a = false \/ is_exact b = false ->
  num_cmp a b = fcompare (as_real a) (as_real b) /\ num_eqb a b = feqb (as_real a) (as_real b).
Proof. exact cmp_inexact. Qed.

(** eqv? on two numbers in normal form (every literal and every result is): same exactness and = *)
Theorem C10_eqv : forall a b, normal a -> normal b ->
  (num_eqv a b = true <-> (is_exact a = is_exact b /\ num_eqb a b = true)).
Proof. exact eqv_normal. Qed.

(** one step of max / min *)
Theorem C10_max2 : forall a b, wf a -> wf b -> is_exact a = true -> is_exact b = true ->
  is_exact (num_max2 a b) = true /\ (qval (num_max2 a b) == Qmax (qval a) (qval b))%Q.
Proof. exact max2_exact. Qed.
Theorem C10_min2 : forall a b, wf a -> wf b -> is_exact a = true -> is_exact b = true ->
  is_exact (num_min2 a b) = true /\ (qval (num_min2 a b) == Qmin (qval a) (qval b))%Q.
Proof. exact min2_exact. Qed.
Theorem C10_max2_inexact : forall a b, is_exact a = false \/ is_exact b = false ->
  num_max2 a b = NReal (if num_gtb a b then as_real a else as_real b).
Proof. exact max2_inexact. Qed.
Theorem C10_min2_inexact : forall a b, is_exact a = false \/ is_exact b = false ->
  num_min2 a b = NReal (if num_ltb a b then as_real a else as_real b).
Proof. exact min2_inexact. Qed.

Example C10_ex_negden : num_ltb (NRat 1 (-2)) (NInt 0) = true /\ wf (NRat 1 (-2)).
Proof. split; [vm_compute; reflexivity | cbn; discriminate]. Qed.
