(** C05  Derived forms behave as R7RS specifies.
    Property theorems only: the expansion equations of begin, let, let*, cond (else, =>), case
    (else, =>), and, or, when, unless, proved about the syntax table [G] that is computed inside
    Coq from the current text of /repo/src/parser/grammar.sld (Gen/GrammarSld.v, regenerated on
    every run). [expand kw args] is the transformer of [kw] applied to the use without its
    keyword; [args_of] builds the argument list with arbitrary locations; [L]/[Y] are lists and
    symbols built by a template (no location); sub-forms e1, e2, ... are arbitrary data.
    What the expansions mean is the business of the core evaluator (C01): each right-hand side
    consists of if, lambda, application and the other derived forms only. So e.g. [and_2]+[and_1]
    say that (and e1 e2) evaluates e1, and e2 only if e1 is true, returning e2's value; [or_2] that
    (or e1 e2) evaluates e1 once, binds it, and returns it if true; [let_2_2] that the initialisers are
    evaluated outside the scope of the variables, [letstar_2] that let* scopes left to right;
    [cond_clause_more] / [case_clause_more] that only the first selected clause runs.
    The [*_rejected] lemmas delimit the known class F2 (an ellipsis needs one item). *)
From Coq Require Import ZArith List.
From RV Require Import Model.Common Model.Datum Model.Macro Proofs.DerivedProofs.
Import ListNotations.

Theorem C05_and_0 : expand k_and (DNil None) = Ok (DPrim (PBool true) None).
Proof. exact and_0. Qed.

Theorem C05_and_1 : forall e l, expand k_and (args_of [(e, l)]) = Ok e.
Proof. exact and_1. Qed.

Theorem C05_and_2 : forall e1 e2 l1 l2,
  expand k_and (args_of [(e1, l1); (e2, l2)]) =
  Ok (L [Y k_if; e1; L [Y k_and; e2]; DPrim (PBool false) None]).
Proof. exact and_2. Qed.

Theorem C05_and_3 : forall e1 e2 e3 l1 l2 l3,
  expand k_and (args_of [(e1, l1); (e2, l2); (e3, l3)]) =
  Ok (L [Y k_if; e1; L [Y k_and; e2; e3]; DPrim (PBool false) None]).
Proof. exact and_3. Qed.

Theorem C05_or_0 : expand k_or (DNil None) = Ok (DPrim (PBool false) None).
Proof. exact or_0. Qed.

Theorem C05_or_1 : forall e l, expand k_or (args_of [(e, l)]) = Ok e.
Proof. exact or_1. Qed.

Theorem C05_or_2 : forall e1 e2 l1 l2,
  expand k_or (args_of [(e1, l1); (e2, l2)]) =
  Ok (L [Y k_let; L [L [Y k_x; e1]]; L [Y k_if; Y k_x; Y k_x; L [Y k_or; e2]]]).
Proof. exact or_2. Qed.

Theorem C05_or_3 : forall e1 e2 e3 l1 l2 l3,
  expand k_or (args_of [(e1, l1); (e2, l2); (e3, l3)]) =
  Ok (L [Y k_let; L [L [Y k_x; e1]]; L [Y k_if; Y k_x; Y k_x; L [Y k_or; e2; e3]]]).
Proof. exact or_3. Qed.

Theorem C05_begin_2 : forall e1 e2 l1 l2,
  expand k_begin (args_of [(e1, l1); (e2, l2)]) = Ok (L [L [Y k_lambda; L []; e1; e2]]).
Proof. exact begin_2. Qed.

Theorem C05_begin_1 : forall e1 l1,
  expand k_begin (args_of [(e1, l1)]) = Ok (L [L [Y k_lambda; L []; e1]]).
Proof. exact begin_1. Qed.

Theorem C05_begin_3 : forall e1 e2 e3 l1 l2 l3,
  expand k_begin (args_of [(e1, l1); (e2, l2); (e3, l3)]) = Ok (L [L [Y k_lambda; L []; e1; e2; e3]]).
Proof. exact begin_3. Qed.

Theorem C05_when_2 : forall t e1 e2 l0 l1 l2,
  expand k_when (args_of [(t, l0); (e1, l1); (e2, l2)]) = Ok (L [Y k_if; t; L [Y k_begin; e1; e2]]).
Proof. exact when_2. Qed.

Theorem C05_unless_2 : forall t e1 e2 l0 l1 l2,
  expand k_unless (args_of [(t, l0); (e1, l1); (e2, l2)]) =
  Ok (L [Y k_if; L [Y k_not; t]; L [Y k_begin; e1; e2]]).
Proof. exact unless_2. Qed.

Theorem C05_let_1_1 : forall x v b lb l0 l1 l2 l3 l4,
  expand k_let (args_of [(DCons (DCons x (DCons v (DNil l4) l3) l2) (DNil l1) l0, lb); (b, None)]) =
  Ok (L [L [Y k_lambda; L [x]; b]; v]).
Proof. exact let_1_1. Qed.

Theorem C05_let_2_2 : forall x v y w b1 b2 la lb lc ld le lf l0 l1 l2 l3 l4,
  expand k_let (args_of [(args_of [(binding x v la lb lc, l0); (binding y w ld le lf, l1)], l2); (b1, l3); (b2, l4)]) =
  Ok (L [L [Y k_lambda; L [x; y]; b1; b2]; v; w]).
Proof. exact let_2_2. Qed.

Theorem C05_let_3_1 : forall x v y w z u b1 la lb lc ld le lf lg lh li l0 l1 l2 l3 l4,
  expand k_let (args_of [(args_of [(binding x v la lb lc, l0); (binding y w ld le lf, l1); (binding z u lg lh li, l2)], l3); (b1, l4)]) =
  Ok (L [L [Y k_lambda; L [x; y; z]; b1]; v; w; u]).
Proof. exact let_3_1. Qed.

Theorem C05_letstar_1 : forall x v b la lb lc l0 l1 l2,
  expand k_letstar (args_of [(args_of [(binding x v la lb lc, l0)], l1); (b, l2)]) =
  Ok (L [Y k_let; L [L [x; v]]; b]).
Proof. exact letstar_1. Qed.

Theorem C05_letstar_2 : forall x v y w b la lb lc ld le lf l0 l1 l2 l3,
  expand k_letstar (args_of [(args_of [(binding x v la lb lc, l0); (binding y w ld le lf, l1)], l2); (b, l3)]) =
  Ok (L [Y k_let; L [L [x; v]]; L [Y k_letstar; L [L [y; w]]; b]]).
Proof. exact letstar_2. Qed.

Theorem C05_letstar_3 : forall x v y w z u b la lb lc ld le lf lg lh li l0 l1 l2 l3 l4,
  expand k_letstar (args_of [(args_of [(binding x v la lb lc, l0); (binding y w ld le lf, l1); (binding z u lg lh li, l2)], l3); (b, l4)]) =
  Ok (L [Y k_let; L [L [x; v]]; L [Y k_letstar; L [L [y; w]; L [z; u]]; b]]).
Proof. exact letstar_3. Qed.

Theorem C05_cond_else : forall e1 e2 l0 l1 l2 l3 l4,
  expand k_cond (args_of [(args_of [(DSym (sym k_else) l0, l1); (e1, l2); (e2, l3)], l4)]) =
  Ok (L [Y k_begin; e1; e2]).
Proof. exact cond_else. Qed.

Theorem C05_cond_test_only : forall t l0 l1, is_sym k_else t = false ->
  expand k_cond (args_of [(args_of [(t, l0)], l1)]) = Ok t.
Proof. exact cond_test_only. Qed.

Theorem C05_cond_last_clause : forall t e l0 l1 l2, is_sym k_else t = false ->
  expand k_cond (args_of [(args_of [(t, l0); (e, l1)], l2)]) =
  Ok (L [Y k_if; t; L [Y k_begin; e]]).
Proof. exact cond_last_clause. Qed.

Theorem C05_cond_last_clause_2 : forall t e1 e2 l0 l1 l2 l3, is_sym k_else t = false -> is_sym k_arrow e1 = false ->
  expand k_cond (args_of [(args_of [(t, l0); (e1, l1); (e2, l2)], l3)]) =
  Ok (L [Y k_if; t; L [Y k_begin; e1; e2]]).
Proof. exact cond_last_clause_2. Qed.

Theorem C05_cond_last_arrow : forall t f l0 l1 l2 l3 l4, is_sym k_else t = false ->
  expand k_cond (args_of [(args_of [(t, l0); (DSym (sym k_arrow) l1, l2); (f, l3)], l4)]) =
  Ok (L [Y k_let; L [L [Y k_temp; t]]; L [Y k_if; Y k_temp; L [f; Y k_temp]]]).
Proof. exact cond_last_arrow. Qed.

Theorem C05_cond_clause_more : forall t e c l0 l1 l2 l3, is_sym k_else t = false ->
  expand k_cond (args_of [(args_of [(t, l0); (e, l1)], l2); (c, l3)]) =
  Ok (L [Y k_if; t; L [Y k_begin; e]; L [Y k_cond; c]]).
Proof. exact cond_clause_more. Qed.

Theorem C05_cond_clause_more_2 : forall t e c1 c2 l0 l1 l2 l3 l4, is_sym k_else t = false ->
  expand k_cond (args_of [(args_of [(t, l0); (e, l1)], l2); (c1, l3); (c2, l4)]) =
  Ok (L [Y k_if; t; L [Y k_begin; e]; L [Y k_cond; c1; c2]]).
Proof. exact cond_clause_more_2. Qed.

Theorem C05_cond_test_only_more : forall t c l0 l1 l2, is_sym k_else t = false ->
  expand k_cond (args_of [(args_of [(t, l0)], l1); (c, l2)]) =
  Ok (L [Y k_let; L [L [Y k_temp; t]]; L [Y k_if; Y k_temp; Y k_temp; L [Y k_cond; c]]]).
Proof. exact cond_test_only_more. Qed.

Theorem C05_cond_arrow_more : forall t f c l0 l1 l2 l3 l4 l5, is_sym k_else t = false ->
  expand k_cond (args_of [(args_of [(t, l0); (DSym (sym k_arrow) l1, l2); (f, l3)], l4); (c, l5)]) =
  Ok (L [Y k_let; L [L [Y k_temp; t]]; L [Y k_if; Y k_temp; L [f; Y k_temp]; L [Y k_cond; c]]]).
Proof. exact cond_arrow_more. Qed.

Theorem C05_case_compound_key : forall k1 k2 c l0 l1 l2 l3,
  expand k_case (args_of [(args_of [(k1, l0); (k2, l1)], l2); (c, l3)]) =
  Ok (L [Y k_let; L [L [Y k_atom_key; L [k1; k2]]]; L [Y k_case; Y k_atom_key; c]]).
Proof. exact case_compound_key. Qed.

Theorem C05_case_else : forall k e1 e2 l0 l1 l2 l3 l4 l5, is_pair_datum k = false -> is_sym k_arrow e1 = false ->
  expand k_case (args_of [(k, l0); (args_of [(DSym (sym k_else) l1, l2); (e1, l3); (e2, l4)], l5)]) =
  Ok (L [Y k_begin; e1; e2]).
Proof. exact case_else. Qed.

Theorem C05_case_else_arrow : forall k f l0 l1 l2 l3 l4 l5 l6, is_pair_datum k = false ->
  expand k_case (args_of [(k, l0); (args_of [(DSym (sym k_else) l1, l2); (DSym (sym k_arrow) l3, l4); (f, l5)], l6)]) =
  Ok (L [f; k]).
Proof. exact case_else_arrow. Qed.

Theorem C05_case_last_clause : forall k a b e l0 l1 l2 l3 l4 l5, is_pair_datum k = false ->
  expand k_case (args_of [(k, l0); (args_of [(args_of [(a, l1); (b, l2)], l3); (e, l4)], l5)]) =
  Ok (L [Y k_if; L [Y k_memv; k; quoted (L [a; b])]; L [Y k_begin; e]]).
Proof. exact case_last_clause. Qed.

Theorem C05_case_last_clause_arrow : forall k a f l0 l1 l2 l3 l4 l5 l6, is_pair_datum k = false ->
  expand k_case (args_of [(k, l0); (args_of [(args_of [(a, l1)], l2); (DSym (sym k_arrow) l3, l4); (f, l5)], l6)]) =
  Ok (L [Y k_if; L [Y k_memv; k; quoted (L [a])]; L [f; k]]).
Proof. exact case_last_clause_arrow. Qed.

Theorem C05_case_clause_more : forall k a b e c l0 l1 l2 l3 l4 l5 l6, is_pair_datum k = false ->
  expand k_case (args_of [(k, l0); (args_of [(args_of [(a, l1); (b, l2)], l3); (e, l4)], l5); (c, l6)]) =
  Ok (L [Y k_if; L [Y k_memv; k; quoted (L [a; b])]; L [Y k_begin; e]; L [Y k_case; k; c]]).
Proof. exact case_clause_more. Qed.

Theorem C05_case_clause_arrow_more : forall k a f c l0 l1 l2 l3 l4 l5 l6 l7, is_pair_datum k = false ->
  expand k_case (args_of [(k, l0); (args_of [(args_of [(a, l1)], l2); (DSym (sym k_arrow) l3, l4); (f, l5)], l6); (c, l7)]) =
  Ok (L [Y k_if; L [Y k_memv; k; quoted (L [a])]; L [f; k]; L [Y k_case; k; c]]).
Proof. exact case_clause_arrow_more. Qed.

Theorem C05_when_single_body_rejected : forall t e l0 l1,
  expand k_when (args_of [(t, l0); (e, l1)]) = Err MacroMissMatch None.
Proof. exact when_single_body_rejected. Qed.

Theorem C05_unless_single_body_rejected : forall t e l0 l1,
  expand k_unless (args_of [(t, l0); (e, l1)]) = Err MacroMissMatch None.
Proof. exact unless_single_body_rejected. Qed.

Theorem C05_begin_empty_rejected : expand k_begin (DNil None) = Err MacroMissMatch None.
Proof. exact begin_empty_rejected. Qed.

Theorem C05_let_no_bindings_rejected : forall b l0 l1,
  expand k_let (args_of [(DNil l0, l1); (b, None)]) = Err MacroMissMatch None.
Proof. exact let_no_bindings_rejected. Qed.
