(** C15  Reported error locations point into the form that failed.
    Property theorems only: how locations are produced (lexer) and handed on (expander, eval_ast),
    and where the locations of evaluator errors come from ([C15_error_location_has_a_source]: only from
    the expression evaluated and from procedure bodies that exist in the store), and the chain from the text
    to the reported location: lexer cursor, reader extent, transformer and macro expander, evaluator
    ([C15_located_error_points_into_the_form_or_a_stored_procedure]).
    Convention of the code: a location is the cursor
    position after the token; [pos_le] orders positions by line, then column. *)
From Coq Require Import NArith List Bool.
From RV Require Import Model.Common Model.Datum Model.Lexer Model.Macro Model.Ast Model.Value Model.Eval Model.Interp
  Model.Reader Model.Transform Spec.EvalSpec Proofs.LexProofs Proofs.LocProofs Proofs.LocInvProofs Proofs.ExtentProofs
  Proofs.TransformLoc Proofs.FormLoc.
Import ListNotations.

(** the cursor only moves forward, through tokens as well as through layout *)
Theorem C15_cursor_moves_forward : forall cs p, pos_le p (adv_all cs p).
Proof. exact adv_all_forward. Qed.

(** an identifier's location is the cursor position just after it, inside its own extent *)
Theorem C15_identifier_location_in_extent : forall f c cs rest p,
  plain_initial c = true -> forallb is_subsequent cs = true ->
  match rest with [] => True | d :: _ => is_delimiter d = true end ->
  exists q, lex_next (S f) (c :: cs ++ rest) p = Ok (Some (TIdent (c :: cs), q), rest, q) /\
            q = adv_all (c :: cs) p /\ pos_le p q.
Proof. exact identifier_location_in_extent. Qed.

(** an error keeps the location it carries; only an error without one receives the location of
    the top-level form being evaluated - never a location from elsewhere *)
Theorem C15_error_location_is_own_or_the_forms : forall fs cwd efuel stm env c k l c',
  eval_ast fs cwd efuel stm env c = (Err k l, c') ->
  exists l0, l = loc_or l0 (stmt_loc stm).
Proof. exact eval_ast_location. Qed.

(** macro expansion: what a template builds has no location of its own, so the expansion stands
    where the macro use stood; what was substituted from the use keeps its location *)
Theorem C15_template_list_has_no_location : forall f els l s out,
  substitute (S f) (TList els l) s = Ok out -> exists items, out = [dlist items] /\ dloc (dlist items) = None.
Proof. exact template_list_has_no_location. Qed.
Theorem C15_expansion_takes_use_location : forall ex l, dloc ex = None ->
  dloc (set_dloc ex (loc_or (dloc ex) l)) = l.
Proof. exact expansion_takes_use_location. Qed.
Theorem C15_expansion_keeps_own_location : forall ex l p, dloc ex = Some p ->
  dloc (set_dloc ex (loc_or (dloc ex) l)) = Some p.
Proof. exact expansion_keeps_own_location. Qed.

(** the evaluator never invents a location. Let L be any set of locations that contains "no location",
    every location written in the expression ([eok L e]) and every location written in the body of a
    procedure stored in the state ([slok L st]: closures made by earlier forms and by the libraries).
    Then a located error of the evaluation - at any depth, in any calling context - carries a location
    of L; and the state reached, and any value returned, again hold only closures written with
    locations of L (so the statement applies to the next form as well) *)
Theorem C15_error_location_has_a_source : forall (L : loc -> Prop) st env e k l st',
  L None -> ev st env e (Err k l) st' -> slok L st -> eok L e -> L l.
Proof. exact error_location_has_a_source. Qed.

Theorem C15_evaluator_error_location_has_a_source : forall (L : loc -> Prop) fuel e env st k l st',
  L None -> eval_expr fuel e env st = (Err k l, st') -> slok L st -> eok L e -> L l.
Proof. exact evaluator_error_location_has_a_source. Qed.

Theorem C15_closures_keep_their_locations : forall (L : loc -> Prop) st env e r st',
  L None -> ev st env e r st' -> slok L st -> eok L e -> slok L st' /\ forall v, r = Ok v -> vlok L v.
Proof. exact closures_keep_their_locations. Qed.

(** the errors of native procedures carry no location at all (they receive the form's, see above) *)
Theorem C15_native_errors_are_unlocated : forall name args st k l st',
  Model.Builtins.builtin_call name args st = (Err k l, st') -> l = None.
Proof. exact native_errors_are_unlocated. Qed.

(** ** from the text to the reported location *)

(** the lexer's cursor only moves forward, through every token class, and a token's location is the cursor
    position just after it *)
Theorem C15_lexer_cursor_moves_forward : forall fuel l p o r p',
  lex_next fuel l p = Ok (o, r, p') -> pos_le p p' /\ forall t tp, o = Some (t, tp) -> tp = p'.
Proof. exact lex_next_forward. Qed.

(** a form read from the text with the cursor at [lpos s] carries at every node - at any depth, in lists, dotted
    tails, vectors and quotations - no location or one between that position and the cursor after the form *)
Theorem C15_locations_of_a_form_lie_in_its_text : forall s d s',
  read_next s = Ok (Some d, s') -> pos_le (lpos s) (lpos s') /\ din (between (lpos s) (lpos s')) d.
Proof. exact locations_of_a_form_lie_in_its_text. Qed.

(** the transformer, through any number of macro expansions (the expansion is built from parts of the use and
    unlocated template nodes and takes the use's location), writes into the statement only locations of the form *)
Theorem C15_transform_locations_come_from_the_form : forall (P : loc -> Prop), P None ->
  forall fuel d e s e', transform_stmt fuel d e = (Ok s, e') -> din P d -> sin P s.
Proof. exact transform_locations_come_from_the_form. Qed.

(** the chain: a located error of evaluating a form read from the text points into the form's own text - between the
    cursor before and after reading it - unless it is the location of a procedure body that an earlier form or a
    library put into the store ([Lst]; known finding F7 is about those) *)
Theorem C15_located_error_points_into_the_form_or_a_stored_procedure :
  forall s d s' tf senv e senv' fuel env st k l st' (Lst : loc -> Prop),
  read_next s = Ok (Some d, s') ->
  transform_stmt tf d senv = (Ok (SExpr e), senv') ->
  eval_expr fuel e env st = (Err k l, st') ->
  slok (fun x => between (lpos s) (lpos s') x \/ Lst x) st ->
  between (lpos s) (lpos s') l \/ Lst l.
Proof. exact located_error_points_into_the_form_or_a_stored_procedure. Qed.
