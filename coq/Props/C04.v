(** C04  syntax-rules expansion selects the first matching rule and fills its template.
    Property theorems only, about the expander of Model/Macro.v ([apply_rules] is
    UserDefinedTransformer::transform, [match_datum]/[match_stream] the backtracking matcher,
    [substitute] template substitution). [rule_matches lits d r] runs the matcher of rule [r]
    on the use [d] with a fresh table; [instantiate r d s] fills the template of [r] from [s]. *)
From Coq Require Import ZArith List.
From RV Require Import Model.Common Model.Datum Model.Macro Proofs.MacroProofs Proofs.MacroNoPanic Proofs.MacroSpec
  Proofs.TemplateSpec Proofs.ExpansionSpec Proofs.MacroFuel.
Import ListNotations.

(** rule selection: textual order, the first matching rule decides, with its own bindings only *)
Theorem C04_first_rule_wins : forall before rule after lits d s,
  (forall r0, In r0 before -> exists s0, rule_matches lits d r0 = Ok (false, s0)) ->
  rule_matches lits d rule = Ok (true, s) ->
  apply_rules (before ++ rule :: after) lits d = instantiate rule d s.
Proof. exact first_rule_wins. Qed.

(** a use that matches no rule is a syntax error, never a silent mis-expansion *)
Theorem C04_no_rule_matches : forall rules lits d,
  (forall r0, In r0 rules -> exists s0, rule_matches lits d r0 = Ok (false, s0)) ->
  apply_rules rules lits d = Err MacroMissMatch None.
Proof. exact no_rule_matches. Qed.

(** _ and pattern variables match any form *)
Theorem C04_underscore : forall f lits l d s, match_datum (S f) lits (PUnderscore l) d s = Ok (true, s).
Proof. exact match_underscore. Qed.
Theorem C04_variable : forall f lits x l d s, str_in x lits = false ->
  match_datum (S f) lits (PIdent x l) d s = Ok (true, subst_insert s x (d, [])).
Proof. exact match_variable. Qed.

(** literal identifiers match only themselves *)
Theorem C04_literal_identifier : forall f lits x l d s b s', str_in x lits = true ->
  match_datum (S f) lits (PIdent x l) d s = Ok (b, s') ->
  (b = true <-> exists l', d = DSym x l') /\ s' = s.
Proof. exact match_literal_identifier_iff. Qed.

(** literal data match only equal data *)
Theorem C04_literal_datum : forall f lits q l d s,
  match_datum (S f) lits (PLit q l) d s =
  Ok (match d with DPrim q' _ => prim_eqb q q' | _ => false end, s).
Proof. exact match_literal_datum. Qed.
Theorem C04_prim_eqb_is_equality : forall p q, prim_eqb p q = true <-> p = q.
Proof. exact prim_eqb_eq. Qed.

(** a variable followed by an ellipsis matches a run of one or more forms, all of it, in order *)
Theorem C04_variable_ellipsis_matches_run : forall lits x lx le d ds s, str_in x lits = false ->
  match_stream (2 * length ds + 5) lits [PIdent x lx; PEllipsis le] (d :: ds) s None =
  Ok (true, subst_insert s x (d, ds)).
Proof. exact variable_ellipsis_matches_run. Qed.

(** and [(x ...)] in the template is repeated once per matched item, in order *)
Theorem C04_template_repeats_per_item : forall x lx l s d0 vec,
  subst_get s x = Some (d0, vec) ->
  substitute (length vec + 5) (TList [(TId x lx, true)] l) s = Ok [dlist (d0 :: vec)].
Proof. exact substitute_variable_ellipsis. Qed.

(** ** the matcher against a structural specification (Proofs/MacroSpec.v), for the supported class [wfp]:
    proper list and vector patterns nested to any depth, an ellipsis only in final position after a
    sub-pattern without ellipsis. [M lits p d s s']: pattern [p] matches form [d], extending table [s] to [s']. *)
Theorem C04_matcher_yes_is_specified : forall lits fuel p d s s', wfp lits p ->
  match_datum fuel lits p d s = Ok (true, s') -> M lits p d s s'.
Proof. exact matcher_says_yes_iff_specified. Qed.

Theorem C04_matcher_no_means_no_specified_match : forall lits fuel p d s s', wfp lits p ->
  match_datum fuel lits p d s = Ok (false, s') -> forall s2, ~ M lits p d s s2.
Proof. exact matcher_says_no_iff_nothing_specified. Qed.

Theorem C04_specified_match_is_found : forall lits fuel p d s b s' s2, wfp lits p ->
  match_datum fuel lits p d s = Ok (b, s') -> M lits p d s s2 -> b = true /\ s' = s2.
Proof. exact specified_match_is_what_the_matcher_finds. Qed.

(** not vacuous: (_ a b ...) is in the class and matches (m 1 2 3) with a = 1, b = 2 3 *)
Theorem C04_example_pattern_supported : wfp [] ex_pattern.
Proof. exact ex_pattern_supported. Qed.
Theorem C04_example_match :
  M [] ex_pattern ex_use [] [(ex_a, (ex_int 1%Z, [])); (ex_b, (ex_int 2%Z, [ex_int 3%Z]))].
Proof. exact ex_pattern_matches. Qed.

(** a successful match binds exactly the variables of the pattern (any pattern, any fuel) *)
Theorem C04_match_binds_the_pattern_variables : forall fuel lits p d s,
  match_datum fuel lits p d [] = Ok (true, s) -> forall x, K s x <-> PV lits p x.
Proof. exact match_binds_the_pattern_variables. Qed.

(** ** template substitution against a structural specification (Proofs/TemplateSpec.v): [tinst s pick t] is [t]
    with every bound variable replaced by [pick] of its binding *)
Theorem C04_template_without_ellipsis : forall fuel t s ds, flatt t -> substitute fuel t s = Ok ds ->
  exists d, ds = [d] /\ tinst s pick_first t = Some d.
Proof. exact substitute_flat. Qed.

Theorem C04_template_final_ellipsis : forall fuel pre t l s ds,
  Forall (fun e => snd e = false /\ flatt (fst e)) pre -> flatt t ->
  substitute fuel (TList (pre ++ [(t, true)]) l) s = Ok ds ->
  exists items first more,
    ds = [dlist (items ++ first :: more)] /\
    tinst_items s pick_first pre = Some items /\
    tinst s pick_first t = Some first /\
    (forall k, k < length more -> tinst s (pick_further k) t = Some (nth k more (DNil None))) /\
    tinst s (pick_further (length more)) t = None.
Proof. exact substitute_final_ellipsis. Qed.

(** ** both together (Proofs/ExpansionSpec.v): after `q ...` has matched the forms e1 :: rest, the template
    `(pre ... t ...)` expands to the instances of pre, then one copy of [t] for e1 and one per further form,
    in order, the copy for a form being [t] with the variables of [q] replaced by what they matched in
    that form ([fr] is the table of matching [q] against that form alone) *)
Theorem C04_ellipsis_template_expands_per_item : forall lits q e1 rest s s1 s2 pre t l fuel ds,
  flatp q -> M lits q e1 s s1 -> RUN lits q rest s1 s2 ->
  Forall (fun e => snd e = false /\ flatt (fst e)) pre -> flatt t ->
  (exists x, tvar x t /\ PV lits q x) ->
  (forall x, tvar x t -> K s2 x -> PV lits q x) ->
  substitute fuel (TList (pre ++ [(t, true)]) l) s2 = Ok ds ->
  exists items first more freshes,
    ds = [dlist (items ++ first :: more)] /\
    tinst_items s2 pick_first pre = Some items /\
    tinst s2 pick_first t = Some first /\
    Forall2 (fun e fr => M lits q e [] fr) rest freshes /\
    Forall2 (fun fr d => tinst fr pick_first t = Some d) freshes more.
Proof. exact ellipsis_template_expands_per_item. Qed.

(** the fuel the model gives the matcher always suffices (Proofs/MacroFuel.v: every recursive call decreases
    2 * (size of the patterns + size of the forms)), so for the supported class matching is DECIDED and is what
    the specification says: the matcher answers yes or no - never out of fuel, never an error, never a panic -,
    yes with table s' exactly when the specification relates pattern, form and s' *)
Theorem C04_match_fuel_suffices : forall lits p d s, match_datum (match_fuel p d) lits p d s <> OutOfFuel.
Proof. exact match_fuel_suffices. Qed.

Theorem C04_matching_is_decided_by_the_specification : forall lits p d s, wfp lits p ->
  exists b s', match_datum (match_fuel p d) lits p d s = Ok (b, s') /\
    (b = true -> M lits p d s s') /\ (forall s2, M lits p d s s2 -> b = true /\ s2 = s').
Proof. exact matching_is_decided_by_the_specification. Qed.
