(** C04  syntax-rules expansion selects the first matching rule and fills its template.
    Property theorems only, about the expander of Model/Macro.v ([apply_rules] is
    UserDefinedTransformer::transform, [match_datum]/[match_stream] the backtracking matcher,
    [substitute] template substitution). [rule_matches lits d r] runs the matcher of rule [r]
    on the use [d] with a fresh table; [instantiate r d s] fills the template of [r] from [s]. *)
From Coq Require Import List.
From RV Require Import Model.Common Model.Datum Model.Macro Proofs.MacroProofs.
Import ListNotations.

(** rule selection: textual order, the first matching rule decides, with its own bindings only *)
Theorem C04_first_rule_wins : forall before rule after lits d s,
  (forall r0, In r0 before -> exists s0, rule_matches lits d r0 = Ok (false, s0)) ->
  rule_matches lits d rule = Ok (true, s) ->
  apply_rules (before ++ rule :: after) lits d = instantiate rule d s.
Proof. exact first_rule_wins. Qed.

(** a use that matches no rule is a syntax error, never a silent mis-expansion *)
Theorem C04_no_rule_matches : forall rules lits d,
  (forall r0, In r0 rules -> exists s0, rule_matches lits d r0 = Ok (false, s0)) ->
  apply_rules rules lits d = Err MacroMissMatch None.
Proof. exact no_rule_matches. Qed.

(** _ and pattern variables match any form *)
Theorem C04_underscore : forall f lits l d s, match_datum (S f) lits (PUnderscore l) d s = Ok (true, s).
Proof. exact match_underscore. Qed.
Theorem C04_variable : forall f lits x l d s, str_in x lits = false ->
  match_datum (S f) lits (PIdent x l) d s = Ok (true, subst_insert s x (d, [])).
Proof. exact match_variable. Qed.

(** literal identifiers match only themselves *)
Theorem C04_literal_identifier : forall f lits x l d s b s', str_in x lits = true ->
  match_datum (S f) lits (PIdent x l) d s = Ok (b, s') ->
  (b = true <-> exists l', d = DSym x l') /\ s' = s.
Proof. exact match_literal_identifier_iff. Qed.

(** literal data match only equal data *)
Theorem C04_literal_datum : forall f lits q l d s,
  match_datum (S f) lits (PLit q l) d s =
  Ok (match d with DPrim q' _ => prim_eqb q q' | _ => false end, s).
Proof. exact match_literal_datum. Qed.
Theorem C04_prim_eqb_is_equality : forall p q, prim_eqb p q = true <-> p = q.
Proof. exact prim_eqb_eq. Qed.

(** a variable followed by an ellipsis matches a run of one or more forms, all of it, in order *)
Theorem C04_variable_ellipsis_matches_run : forall lits x lx le d ds s, str_in x lits = false ->
  match_stream (2 * length ds + 5) lits [PIdent x lx; PEllipsis le] (d :: ds) s None =
  Ok (true, subst_insert s x (d, ds)).
Proof. exact variable_ellipsis_matches_run. Qed.

(** and [(x ...)] in the template is repeated once per matched item, in order *)
Theorem C04_template_repeats_per_item : forall x lx l s d0 vec,
  subst_get s x = Some (d0, vec) ->
  substitute (length vec + 5) (TList [(TId x lx, true)] l) s = Ok [dlist (d0 :: vec)].
Proof. exact substitute_variable_ellipsis. Qed.
