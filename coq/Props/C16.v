(** C16  Printed values read back as the same values.
    Property theorems only (Model/Print.v is Display for Value/Number/pairs/vectors; [parse_i32]
    is the lexer's integer conversion, [lex_next] the lexer, [read_text] the reader on a whole text).
    [C16_display_read_round_trip] is the property itself for every proper list, nested to any depth, of
    exact integers, booleans, characters and plain identifiers. Not proved: the real-number leaf (the
    model's printer is validated against Rust's {:?} on every run, see the check), ratios, vectors and
    dotted tails as parts of the tree theorem (their shapes are proved separately below). *)
From Coq Require Import ZArith NArith List Bool.
From RV Require Import Model.Common Model.Num Model.Datum Model.Lexer Model.Reader Model.Value Model.Print Model.Eval
  Proofs.LexProofs Proofs.PrintProofs Proofs.RoundTrip.
Import ListNotations.
Local Open Scope Z_scope.

(** exact integers: the printed text is read back as the same integer, for every i32 *)
Theorem C16_int_roundtrip : forall z, -2147483648 <= z <= 2147483647 -> parse_i32 (print_Z z) = Some z.
Proof. exact int_roundtrip. Qed.

Theorem C16_digits_roundtrip : forall z, 0 <= z ->
  digits_value (digits_of z) 0 = z /\ forallb is_digit (digits_of z) = true /\ digits_of z <> [].
Proof. exact digits_roundtrip. Qed.

(** distinct integers print differently *)
Theorem C16_print_Z_injective : forall a b, -2147483648 <= a <= 2147483647 -> -2147483648 <= b <= 2147483647 ->
  print_Z a = print_Z b -> a = b.
Proof. exact print_Z_injective. Qed.

(** a ratio prints as numerator / denominator (each an integer as above) *)
Theorem C16_ratio_prints_as_parts : forall n d, print_number (NRat n d) = print_Z n ++ [47%N] ++ print_Z d.
Proof. exact ratio_prints_as_parts. Qed.

(** booleans and characters print as the tokens that denote them *)
Theorem C16_bool_roundtrip : forall b rest p,
  exists p', lex_next 3 (match display 1 empty_state (VBool b) with Some t => t | None => [] end ++ rest) p
             = Ok (Some (TPrim (PBool b), p'), rest, p').
Proof. exact bool_roundtrip. Qed.
Theorem C16_char_roundtrip : forall c rest p,
  exists p', lex_next 3 (match display 1 empty_state (VChar c) with Some t => t | None => [] end ++ rest) p
             = Ok (Some (TPrim (PChar c), p'), rest, p').
Proof. exact char_roundtrip. Qed.

(** lists print with single spaces and a dotted tail only when improper *)
Theorem C16_display_pair_shape : forall f st a b sa sb,
  display f st a = Some sa -> display f st b = Some sb ->
  display (S f) st (VPair a (VPair b VNil)) = Some ([40%N] ++ sa ++ [32%N] ++ sb ++ [41%N]) /\
  (match b with VNil | VPair _ _ => False | _ => True end ->
   display (S f) st (VPair a b) = Some ([40%N] ++ sa ++ [32%N; 46%N; 32%N] ++ sb ++ [41%N])) /\
  display (S f) st (VPair a VNil) = Some ([40%N] ++ sa ++ [41%N]).
Proof. exact display_pair_shape. Qed.

(** the printed form of an integer, followed by a delimiter or the end of the input, is one token *)
Theorem C16_printed_integer_is_its_token : forall z rest p f,
  -2147483648 <= z <= 2147483647 -> delimited rest ->
  lex_next (S f) (print_Z z ++ rest) p
  = Ok (Some (TPrim (PInt z), adv_all (print_Z z) p), rest, adv_all (print_Z z) p).
Proof. exact printed_integer_is_its_token. Qed.

(** the round trip. [T] is the type of proper lists, nested to any depth and of any length, whose atoms
    are exact integers of the i32 range, ratios in lowest terms, booleans, characters and plain identifiers; [tval t] is the
    value, [in_range t] the side condition on the atoms. What [display] prints for such a value is a
    text that the reader reads as exactly one datum, and that datum, quoted, evaluates to the value *)
Theorem C16_display_read_round_trip : forall t st,
  in_range t ->
  exists text d, display (S (depth t)) st (tval t) = Some text /\
                 read_text text = Ok [d] /\ (forall st', read_literal d st' = (Ok (tval t), st')).
Proof. exact display_read_round_trip. Qed.

(** also inside a longer text: the printed tree is read as one datum and nothing after it is consumed *)
Theorem C16_printed_tree_is_read_back : forall t rest s,
  in_range t -> delimited rest -> lrest s = ttext t ++ rest ->
  exists d s', read_next s = Ok (Some d, s') /\ lrest s' = rest /\ dval d (tval t).
Proof. exact printed_tree_is_read_back. Qed.

(** a printed ratio, followed by a delimiter or the end of the input, is one token: that ratio *)
Theorem C16_printed_ratio_is_its_token : forall n d rest p f,
  -2147483648 <= n <= 2147483647 -> 1 <= d <= 2147483647 -> delimited rest ->
  exists q, lex_next (S f) (print_Z n ++ [47%N] ++ print_Z d ++ rest) p = Ok (Some (TPrim (PRat n d), q), rest, q).
Proof. exact printed_ratio_is_its_token. Qed.

(** not vacuous: (-42 (a #t -3/4) #\x 7) satisfies the side condition *)
Theorem C16_a_tree_in_range :
  in_range (Node [Leaf (AInt (-42)); Node [Leaf (ASym 97%N []); Leaf (ABool true); Leaf (ARat (-3) 4)]; Leaf (AChar 120%N); Leaf (AInt 7)]).
Proof. exact a_tree_in_range. Qed.
