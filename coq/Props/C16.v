(** C16  Printed values read back as the same values.
    Property theorems only (Model/Print.v is Display for Value/Number/pairs/vectors; [parse_i32]
    is the lexer's integer conversion, [lex_next] the lexer). The real-number leaf is not proved:
    the model's printer is validated against Rust's {:?} on every run (see the check). *)
From Coq Require Import ZArith NArith List Bool.
From RV Require Import Model.Common Model.Num Model.Datum Model.Lexer Model.Value Model.Print Proofs.PrintProofs.
Import ListNotations.
Local Open Scope Z_scope.

(** exact integers: the printed text is read back as the same integer, for every i32 *)
Theorem C16_int_roundtrip : forall z, -2147483648 <= z <= 2147483647 -> parse_i32 (print_Z z) = Some z.
Proof. exact int_roundtrip. Qed.

Theorem C16_digits_roundtrip : forall z, 0 <= z ->
  digits_value (digits_of z) 0 = z /\ forallb is_digit (digits_of z) = true /\ digits_of z <> [].
Proof. exact digits_roundtrip. Qed.

(** distinct integers print differently *)
Theorem C16_print_Z_injective : forall a b, -2147483648 <= a <= 2147483647 -> -2147483648 <= b <= 2147483647 ->
  print_Z a = print_Z b -> a = b.
Proof. exact print_Z_injective. Qed.

(** a ratio prints as numerator / denominator (each an integer as above) *)
Theorem C16_ratio_prints_as_parts : forall n d, print_number (NRat n d) = print_Z n ++ [47%N] ++ print_Z d.
Proof. exact ratio_prints_as_parts. Qed.

(** booleans and characters print as the tokens that denote them *)
Theorem C16_bool_roundtrip : forall b rest p,
  exists p', lex_next 3 (match display 1 empty_state (VBool b) with Some t => t | None => [] end ++ rest) p
             = Ok (Some (TPrim (PBool b), p'), rest, p').
Proof. exact bool_roundtrip. Qed.
Theorem C16_char_roundtrip : forall c rest p,
  exists p', lex_next 3 (match display 1 empty_state (VChar c) with Some t => t | None => [] end ++ rest) p
             = Ok (Some (TPrim (PChar c), p'), rest, p').
Proof. exact char_roundtrip. Qed.

(** lists print with single spaces and a dotted tail only when improper *)
Theorem C16_display_pair_shape : forall f st a b sa sb,
  display f st a = Some sa -> display f st b = Some sb ->
  display (S f) st (VPair a (VPair b VNil)) = Some ([40%N] ++ sa ++ [32%N] ++ sb ++ [41%N]) /\
  (match b with VNil | VPair _ _ => False | _ => True end ->
   display (S f) st (VPair a b) = Some ([40%N] ++ sa ++ [32%N; 46%N; 32%N] ++ sb ++ [41%N])) /\
  display (S f) st (VPair a VNil) = Some ([40%N] ++ sa ++ [41%N]).
Proof. exact display_pair_shape. Qed.
