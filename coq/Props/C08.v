(** C08  Run-time errors are detected, classified, and leave the interpreter usable.
    Property theorems only. The rules of Spec/EvalSpec.v have no notion of calling context: a
    call is checked the same way wherever it stands; the evaluator (with its trampoline for
    tail calls, and apply re-entering it) is sound for those rules, errors and the state
    reached included. *)
From Coq Require Import List.
From RV Require Import Model.Common Model.Ast Model.Value Model.Builtins Model.Eval Spec.EvalSpec Proofs.EvalProofs Proofs.FuelProofs Proofs.FailProofs.
Import ListNotations.

(** an error (with the state in which it was raised) is reported only where the rules raise it *)
Theorem C08_errors_sound : forall fuel e env st k l st',
  eval_expr fuel e env st = (Err k l, st') -> ev st env e (Err k l) st'.
Proof. exact errors_sound. Qed.

(** the number of arguments is checked at every application, whatever path leads to it *)
Theorem C08_arity_checked_everywhere : forall st p args r st' fixed variadic,
  app st p args r st' -> proc_arity p = Some (fixed, variadic) ->
  arity_ok (length args) fixed variadic = false ->
  r = Err ArgumentMissMatch None /\ st' = st.
Proof. exact app_arity_checked. Qed.

Theorem C08_arity_checked_in_trampoline : forall fuel p args env st fixed variadic,
  proc_arity p = Some (fixed, variadic) -> arity_ok (length args) fixed variadic = false ->
  apply_proc (S (S fuel)) p args env st = (Err ArgumentMissMatch None, st).
Proof. exact tramp_arity. Qed.

(** never an invented value: a call yields a value only if its operator evaluated to a
    procedure, its operands to values and the application to that value; a variable reference
    only if the variable is bound; an assignment only if the variable is bound *)
Theorem C08_call_value_needs_procedure : forall st env fe args l v st',
  ev st env (ECall fe args l) (Ok v) st' ->
  exists fv st1 vs st2, ev st env fe (Ok fv) st1 /\ is_proc fv = true /\
                        evs st1 env args (Ok vs) st2 /\ app st2 fv vs (Ok v) st'.
Proof. exact call_value_needs_procedure. Qed.
Theorem C08_ref_value_needs_binding : forall st env x l v st',
  ev st env (ESym x l) (Ok v) st' -> env_get st env x = Some v /\ st' = st.
Proof. exact ref_value_needs_binding. Qed.
Theorem C08_set_value_needs_binding : forall st env x e l v st',
  ev st env (ESet x e l) (Ok v) st' ->
  exists w st1, ev st env e (Ok w) st1 /\ env_set st1 env x w = Some st' /\ v = VVoid.
Proof. exact set_value_needs_binding. Qed.

(** nothing is rolled back and nothing is invented: states only grow (no frame and no vector
    disappears), so every closure and vector created before a fault stays usable after it *)
Theorem C08_state_grows : forall st env e r st',
  ev st env e r st' ->
  length (frames st) <= length (frames st') /\ length (vectors st) <= length (vectors st').
Proof. exact ev_state_grows. Qed.

(** detection is complete: whenever the rules fault an expression - whatever the nesting and the
    calling context of the faulting operation - the evaluator, for every sufficiently large fuel,
    answers with a failure and has reached exactly the state the rules give (the effects completed
    before the fault, nothing else) *)
Theorem C08_failure_complete : forall st env e r st', ev st env e r st' -> failed r ->
  exists r', failed r' /\ exists n, forall fuel, n <= fuel -> eval_expr fuel e env st = (r', st').
Proof. exact ev_failure_complete. Qed.

(** never an invented value: any answer short of a timeout for an expression the rules fault is a
    failure, in the state of the rules *)
Theorem C08_failure_detected : forall fuel e env st r1 st1 r st',
  eval_expr fuel e env st = (r1, st1) -> noF r1 -> ev st env e r st' -> failed r ->
  failed r1 /\ st1 = st'.
Proof. exact failure_detected. Qed.

(** the rules themselves never assign both a value and a failure, and every failure they assign to
    an expression is reached in the same state *)
Theorem C08_value_excludes_failure : forall st env e v st1 r st2,
  ev st env e (Ok v) st1 -> ev st env e r st2 -> failed r -> False.
Proof. exact ev_value_excludes_failure. Qed.
Theorem C08_failure_state_unique : forall st env e r1 st1 r2 st2,
  ev st env e r1 st1 -> failed r1 -> ev st env e r2 st2 -> failed r2 -> st1 = st2.
Proof. exact ev_failure_state_unique. Qed.
