(** C01  Core evaluation yields the value Scheme semantics assigns.
    Property theorems only. [ev], [evs], [app] are the direct-style big-step rules of
    Spec/EvalSpec.v (R7RS 4.1 / 5.3: innermost binding, operands left to right exactly once,
    only #f false, internal definitions into the procedure's fresh frame, (apply p a.. l) =
    (p a.. l1..ln)); [eval_expr], [apply_proc] are the trampolined evaluator of the model.
    [noF r] says the model did not run out of fuel. *)
From Coq Require Import List.
From RV Require Import Model.Common Model.Ast Model.Value Model.Eval Spec.EvalSpec Proofs.EvalProofs Proofs.FuelProofs.
Import ListNotations.

(** whatever the evaluator returns for an expression - value, error or panic, and the state -
    is what the rules assign, however the forms are nested *)
Theorem C01_eval_sound : forall fuel e env st r st',
  eval_expr fuel e env st = (r, st') -> noF r -> ev st env e r st'.
Proof. exact (fun fuel => s_expr fuel (sound_all fuel)). Qed.

(** operands: left to right, each exactly once, stopping at the first fault *)
Theorem C01_operands_sound : forall fuel es env st r st',
  eval_args fuel es env st = (r, st') -> noF r -> evs st env es r st'.
Proof. exact (fun fuel => s_args fuel (sound_all fuel)). Qed.

(** application through the trampoline is application: the chain of tail calls the loop runs
    is the nested evaluation the rules describe *)
Theorem C01_apply_sound : forall fuel p args env st r st', is_proc p = true ->
  apply_proc fuel p args env st = (r, st') -> noF r -> app st p args r st'.
Proof. exact (fun fuel => s_proc fuel (sound_all fuel)). Qed.

(** a tail expression that the evaluator defers as a call stands for the call *)
Theorem C01_tail_sound : forall fuel e env st r st',
  eval_tail fuel e env st = (r, st') -> noF r -> tail_ok e env st r st'.
Proof. exact (fun fuel => s_tail fuel (sound_all fuel)). Qed.

(** the converse: a value the rules assign is the value (and final state) the evaluator returns, for
    every sufficiently large fuel - nothing the rules define is missed by the trampoline *)
Theorem C01_eval_complete : forall st env e v st',
  ev st env e (Ok v) st' -> exists n, forall fuel, n <= fuel -> eval_expr fuel e env st = (Ok v, st').
Proof. exact ev_complete. Qed.

Theorem C01_apply_complete : forall st p args v st' env,
  app st p args (Ok v) st' -> exists n, forall fuel, n <= fuel -> apply_proc fuel p args env st = (Ok v, st').
Proof. exact app_complete. Qed.

(** the fuel of the model is not observable: an answer that is not a timeout stays the same with more fuel *)
Theorem C01_fuel_irrelevant : forall fuel fuel' e env st r st', fuel <= fuel' ->
  eval_expr fuel e env st = (r, st') -> noF r -> eval_expr fuel' e env st = (r, st').
Proof. exact eval_expr_mono. Qed.

(** the rules assign at most one value and final state to an expression, and whatever the evaluator
    answers (short of a timeout) where the rules assign a value is that value *)
Theorem C01_value_unique : forall st env e v st' v2 st2,
  ev st env e (Ok v) st' -> ev st env e (Ok v2) st2 -> v = v2 /\ st' = st2.
Proof. exact ev_value_unique. Qed.

Theorem C01_decided_by_rules : forall fuel e env st r st1 v st',
  eval_expr fuel e env st = (r, st1) -> noF r -> ev st env e (Ok v) st' -> r = Ok v /\ st1 = st'.
Proof. exact eval_decided_by_rules. Qed.
