(** C01  Core evaluation yields the value Scheme semantics assigns.
    Property theorems only. [ev], [evs], [app] are the direct-style big-step rules of
    Spec/EvalSpec.v (R7RS 4.1 / 5.3: innermost binding, operands left to right exactly once,
    only #f false, internal definitions into the procedure's fresh frame, (apply p a.. l) =
    (p a.. l1..ln)); [eval_expr], [apply_proc] are the trampolined evaluator of the model.
    [noF r] says the model did not run out of fuel. *)
From Coq Require Import List.
From RV Require Import Model.Common Model.Ast Model.Value Model.Eval Spec.EvalSpec Proofs.EvalProofs.
Import ListNotations.

(** whatever the evaluator returns for an expression - value, error or panic, and the state -
    is what the rules assign, however the forms are nested *)
Theorem C01_eval_sound : forall fuel e env st r st',
  eval_expr fuel e env st = (r, st') -> noF r -> ev st env e r st'.
Proof. exact (fun fuel => s_expr fuel (sound_all fuel)). Qed.

(** operands: left to right, each exactly once, stopping at the first fault *)
Theorem C01_operands_sound : forall fuel es env st r st',
  eval_args fuel es env st = (r, st') -> noF r -> evs st env es r st'.
Proof. exact (fun fuel => s_args fuel (sound_all fuel)). Qed.

(** application through the trampoline is application: the chain of tail calls the loop runs
    is the nested evaluation the rules describe *)
Theorem C01_apply_sound : forall fuel p args env st r st', is_proc p = true ->
  apply_proc fuel p args env st = (r, st') -> noF r -> app st p args r st'.
Proof. exact (fun fuel => s_proc fuel (sound_all fuel)). Qed.

(** a tail expression that the evaluator defers as a call stands for the call *)
Theorem C01_tail_sound : forall fuel e env st r st',
  eval_tail fuel e env st = (r, st') -> noF r -> tail_ok e env st r st'.
Proof. exact (fun fuel => s_tail fuel (sound_all fuel)). Qed.
