(** C13  Libraries are encapsulated and loaded once per program.
    Property theorems only. [do_exports st env specs []] is the export step of
    eval_library_definition; [spec_from]/[spec_to] the internal/external name of an export spec. *)
From Coq Require Import List.
From RV Require Import Model.Common Model.Ast Model.Value Model.Interp Spec.EvalSpec Proofs.ImportProofs Proofs.LoaderProofs
  Proofs.RegionProofs Proofs.Locality.
Import ListNotations.

(** a library exposes exactly the external names of its export specs ... *)
Theorem C13_exports_exact_names : forall st env xs lib,
  do_exports st env xs [] = Ok lib ->
  forall y, In y (map fst lib) <-> In y (map spec_to xs).
Proof. exact exports_exact_names. Qed.

(** ... each bound to the value its body gave the internal name ... *)
Theorem C13_exports_exact_values : forall st env xs lib,
  do_exports st env xs [] = Ok lib -> NoDup (map spec_to xs) ->
  forall x, In x xs -> alist_get lib (spec_to x) = env_get st env (spec_from x).
Proof. exact exports_exact_values. Qed.

(** ... and every library an import yields is built that way, from the library's own frame *)
Theorem C13_library_is_its_exports : forall fs cwd f efuel decls c lib c',
  eval_library_definition fs cwd (S f) efuel decls c = (Ok lib, c') ->
  exists exports, do_exports (c_st c') (fst (alloc_frame (c_st c) None)) exports [] = Ok lib.
Proof. exact library_is_its_exports. Qed.

Theorem C13_export_of_undefined_name : forall st env x r acc,
  env_get st env (spec_from x) = None ->
  do_exports st env (x :: r) acc = Err UnboundedSymbol (match x with XDirect _ l | XRename _ _ l => l end).
Proof. exact export_of_undefined_name. Qed.

(** the library's body runs in a fresh frame without parent: it sees nothing of the importer *)
Theorem C13_library_frame_closed : forall st,
  let '(lib_env, st0) := alloc_frame st None in
  nth_error (frames st0) lib_env = Some {| f_parent := None; f_defs := [] |} /\
  (forall x, env_get st0 lib_env x = None).
Proof. exact library_frame_closed. Qed.

(** a definition in the importer's frame changes no binding of any other frame (so not what a
    library's own procedures look up), and no frame's parent link *)
Theorem C13_importer_definition_is_local : forall st a x v b y,
  a <> b -> local_get (env_define st a x v) b y = local_get st b y.
Proof. exact importer_definition_is_local. Qed.
Theorem C13_definitions_keep_parent_links : forall st a x v b,
  option_map f_parent (nth_error (frames (env_define st a x v)) b) = option_map f_parent (nth_error (frames st) b).
Proof. exact env_define_parent. Qed.

(** one instance per library and interpreter: the first successful import records it, every
    later import returns it without evaluating anything *)
Theorem C13_first_import_records_instance : forall fs cwd f efuel n l c lib c',
  lib_get (i_libraries (c_inst c)) n = None ->
  eval_import_set fs cwd (S f) efuel (IDirect n l) c = (Ok lib, c') ->
  lib_get (i_libraries (c_inst c')) n = Some lib.
Proof. exact first_import_records_instance. Qed.
Theorem C13_single_instance : forall fs cwd f efuel n l c lib,
  lib_get (i_libraries (c_inst c)) n = Some lib ->
  eval_import_set fs cwd (S f) efuel (IDirect n l) c = (Ok lib, c).
Proof. exact single_instance. Qed.

(** * a library cannot see its importer (Proofs/RegionProofs.v, Proofs/Locality.v) *)

(** The frames of a library - its own frame, which has no parent, and what its procedures allocate - with the
    libraries it imports form a region. Applying an exported procedure [p] of that region to arguments of the
    region writes nothing outside it (the importer's frames are what they were) ... *)
Theorem C13_library_procedure_writes_only_library_region : forall st p args r st' F V,
  app st p args r st' -> stok F V st -> vok F V p -> Forall (vok F V) args -> untouched F V st st'.
Proof. exact outside_untouched_app. Qed.

(** ... and reads nothing outside it: from a state [w] that differs from [st] only outside the region -
    whatever the importer defined, redefined or assigned in its own frames - the application gives the same
    result, and the states reached agree on the region reached *)
Theorem C13_library_procedure_reads_only_library_region : forall st p args r st' F V w,
  app st p args r st' -> stok F V st -> vok F V p -> Forall (vok F V) args -> same_on F V st w ->
  exists w', app w p args r w' /\
    forall F' V', step_ok F V st F' V' st' -> same_on F' V' st' w'.
Proof. exact application_reads_only_its_region. Qed.
