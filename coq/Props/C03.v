(** C03  Mutable state: bindings and vectors are shared by reference.
    Property theorems only. [env_set] is LexicalScope::set, [defining_frame st e x] the innermost
    frame on the chain of [e] that binds [x], [local_get st a x] the binding of [x] in frame [a]
    itself, [parent_of] the parent link; vectors are cells addressed by index in [vectors st]. *)
From Coq Require Import ZArith List Bool.
From RV Require Import Model.Common Model.Num Model.Datum Model.Macro Model.Value Model.Builtins Model.Eval Spec.EvalSpec Proofs.StoreProofs
  Proofs.RegionProofs Proofs.DerivedProofs.
Import ListNotations.

(** set! changes the one binding lexical scoping designates - and nothing else *)
Theorem C03_set_locality : forall st env x v st',
  env_set st env x v = Some st' ->
  exists d, defining_frame st env x = Some d /\
    local_get st' d x = Some v /\
    (forall b y, (b, y) <> (d, x) -> local_get st' b y = local_get st b y) /\
    (forall b, parent_of st' b = parent_of st b) /\
    (forall a y, defining_frame st' a y = defining_frame st a y) /\
    vectors st' = vectors st /\ out st' = out st /\ ticks st' = ticks st.
Proof. exact set_locality. Qed.

(** the change is seen through every environment whose chain reaches the same defining frame,
    and through no other *)
Theorem C03_share_iff_same_frame : forall st e1 e2 x v st',
  env_set st e1 x v = Some st' ->
  (defining_frame st e2 x = defining_frame st e1 x -> env_get st' e2 x = Some v) /\
  (defining_frame st e2 x <> defining_frame st e1 x -> env_get st' e2 x = env_get st e2 x).
Proof. exact share_iff_same_frame. Qed.

Theorem C03_set_other_name : forall st e1 e2 x y v st',
  env_set st e1 x v = Some st' -> x <> y -> env_get st' e2 y = env_get st e2 y.
Proof. exact set_other_name. Qed.

Theorem C03_set_unbound : forall st env x v, env_set st env x v = None <-> env_get st env x = None.
Proof. exact set_unbound. Qed.

(** each procedure call creates fresh bindings: its frame did not exist before, so closures
    from different calls have different innermost frames and never interfere (by the two
    theorems above) *)
Theorem C03_call_fresh_frame : forall st closure,
  nth_error (frames st) (fst (alloc_frame st (Some closure))) = None /\
  parent_of (snd (alloc_frame st (Some closure))) (fst (alloc_frame st (Some closure))) = Some (Some closure) /\
  (forall b, b < length (frames st) ->
     nth_error (frames (snd (alloc_frame st (Some closure)))) b = nth_error (frames st) b).
Proof. exact call_fresh_frame. Qed.

(** vector-set!: exactly one cell of exactly the addressed vector; every alias holds the same
    address, hence sees it; literal vectors reject mutation *)
Theorem C03_vector_set_locality : forall st m a k obj r st',
  builtin_call n_vector_set [VVec m a; VNum (NInt k); obj] st = (r, st') ->
  match nth_error (vectors st) a with
  | Some cells =>
      if negb m then r = Err RequiresMutable None /\ st' = st
      else if ((k <? 0) || (Z.of_nat (length cells) <=? k))%Z
           then r = Err VectorIndexOutOfBounds None /\ st' = st
           else r = Ok VVoid /\ frames st' = frames st /\ out st' = out st /\ ticks st' = ticks st /\
                vectors st' = list_update (vectors st) a (list_update cells (Z.to_nat k) obj)
  | None => if negb m then r = Err RequiresMutable None /\ st' = st else st' = st
  end.
Proof. exact vector_set_locality. Qed.

Theorem C03_literal_vector_immutable : forall st a k obj,
  builtin_call n_vector_set [VVec false a; VNum (NInt k); obj] st = (Err RequiresMutable None, st).
Proof. exact literal_vector_immutable. Qed.

Theorem C03_vector_ref_returns_stored : forall st m a k cells v,
  nth_error (vectors st) a = Some cells -> (0 <= k)%Z -> nth_error cells (Z.to_nat k) = Some v ->
  builtin_call n_vector_ref [VVec m a; VNum (NInt k)] st = (Ok v, st).
Proof. exact vector_ref_returns_stored. Qed.

Theorem C03_vector_alloc_fresh : forall st args,
  builtin_call n_vector args st =
    (Ok (VVec true (length (vectors st))), set_vectors st (vectors st ++ [args])).
Proof. exact vector_alloc_fresh. Qed.

(** no primitive procedure touches a frame, and none removes a vector *)
Theorem C03_builtins_leave_frames : forall name args st r st', builtin_call name args st = (r, st') ->
  frames st' = frames st /\ length (vectors st) <= length (vectors st').
Proof. exact builtin_call_frames. Qed.

(** "and by no other", for whole computations: applying a procedure value touches only what is
    reachable from it and from its arguments. If the closure, the arguments and everything stored in the
    frames F and vectors V refer only to F and V, then whatever the call does - assignments, definitions,
    vector mutation at any depth of nested calls - every frame and vector outside F and V is exactly as
    before: closures from other calls and distinct vectors never observe it *)
Theorem C03_call_effects_stay_in_region : forall st p args r st' F V,
  app st p args r st' -> stok F V st -> vok F V p -> Forall (vok F V) args -> untouched F V st st'.
Proof. exact outside_untouched_app. Qed.

(** the binding forms of the bundled grammar (grammar.sld as it is in /repo, regenerated into Gen/GrammarSld.v on
    every run) are procedure calls, so "each procedure call creates fresh bindings" covers them: [let] is the
    application of a lambda expression to the initialisers - all bindings of one let in ONE new frame, the
    initialisers evaluated outside it - and [let*] nests, ONE NEW FRAME PER BINDING: a closure made by an earlier
    initialiser does not share the binding a later one introduces, whatever the names *)
Theorem C03_let_is_one_call : forall x v y w b1 b2 la lb lc ld le lf l0 l1 l2 l3 l4,
  expand k_let (args_of [(args_of [(binding x v la lb lc, l0); (binding y w ld le lf, l1)], l2); (b1, l3); (b2, l4)]) =
  Ok (L [L [Y k_lambda; L [x; y]; b1; b2]; v; w]).
Proof. exact let_2_2. Qed.

Theorem C03_letstar_nests_2 : forall x v y w b la lb lc ld le lf l0 l1 l2 l3,
  expand k_letstar (args_of [(args_of [(binding x v la lb lc, l0); (binding y w ld le lf, l1)], l2); (b, l3)]) =
  Ok (L [Y k_let; L [L [x; v]]; L [Y k_letstar; L [L [y; w]]; b]]).
Proof. exact letstar_2. Qed.

Theorem C03_letstar_nests_3 : forall x v y w z u b la lb lc ld le lf lg lh li l0 l1 l2 l3 l4,
  expand k_letstar (args_of [(args_of [(binding x v la lb lc, l0); (binding y w ld le lf, l1); (binding z u lg lh li, l2)], l3); (b, l4)]) =
  Ok (L [Y k_let; L [L [x; v]]; L [Y k_letstar; L [L [y; w]; L [z; u]]; b]]).
Proof. exact letstar_3. Qed.
