(** C07  No input can crash the interpreter.
    Property theorems only. Every Rust site that can panic is an explicit [Panic site] outcome of
    the model; these theorems show the sites that an earlier check makes unreachable, and the
    totality of the lexer and of the reader. What is not proved here (transformer/evaluator totality as
    a whole: no Panic for every well-formed AST) rests on the correspondence of the check. *)
From Coq Require Import List.
From RV Require Import Model.Common Model.Datum Model.Lexer Model.Reader Model.Value Model.Builtins Model.Eval
  Proofs.LexProofs Proofs.ReaderProofs Proofs.NoPanicProofs Proofs.EvalProofs.
Import ListNotations.

(** the lexer: every text yields a token, the end of input or a reported error *)
Theorem C07_lexer_total : forall l p, fine (lex_next (lex_fuel l) l p).
Proof. exact lex_next_total. Qed.

(** the number of arguments is tested before a procedure body runs, at every application ... *)
Theorem C07_arity_tested_first : forall fuel p args env st fixed variadic,
  proc_arity p = Some (fixed, variadic) -> arity_ok (length args) fixed variadic = false ->
  apply_proc (S (S fuel)) p args env st = (Err ArgumentMissMatch None, st).
Proof. exact tramp_arity. Qed.

(** ... so that binding the parameters (arg_iter.next().unwrap()) cannot fail ... *)
Theorem C07_parameter_binding_cannot_panic : forall names st env args,
  length names <= length args ->
  exists rest st', bind_fixed st env names args = Ok (rest, st') /\ length rest = length args - length names.
Proof. exact bind_fixed_no_panic. Qed.

(** ... and no native procedure can miss an argument (the ~40 iter.next().unwrap() of base.rs) *)
Theorem C07_builtins_cannot_miss_an_argument : forall name args st fixed variadic,
  builtin_arity name = Some (fixed, variadic) -> str_eqb name apply_name = false ->
  arity_ok (length args) fixed variadic = true ->
  fst (builtin_call name args st) <> Panic PBuiltinArg.
Proof. exact builtin_no_arg_panic. Qed.

(** the reader: for every input text no panic and no exhaustion of the model's fuel, form after form *)
Theorem C07_reader_total : forall s, fine (read_next s).
Proof. exact read_next_total. Qed.
Theorem C07_read_text_total : forall text, fine (read_text text).
Proof. exact read_text_total. Qed.
