(** C07  No input can crash the interpreter.
    Property theorems only. Every Rust site that can panic is an explicit [Panic site] outcome of
    the model; these theorems show the sites that an earlier check makes unreachable, and the
    totality of the lexer and of the reader, and that the evaluator reaches none of the Rust panic sites
    for any expression the transformer can build, in any state reached from start-up ([PUnmodelled] is the
    model's own limit, not a Rust site), and the same for the whole interpreter: transformer with macro
    expansion, loader, library instantiation, evaluation of any program text after start-up. *)
From Coq Require Import List.
From RV Require Import Model.Common Model.Datum Model.Lexer Model.Reader Model.Ast Model.Transform Model.Value Model.Builtins
  Model.Eval Proofs.LexProofs Proofs.ReaderProofs Proofs.NoPanicProofs Proofs.EvalProofs Proofs.LibBoot Proofs.NoPanicEval
  Proofs.TransformNB Proofs.NoPanicBoot Model.Macro Model.Interp Proofs.InstBoot Proofs.MacroNoPanic Proofs.TransformNoPanic
  Proofs.NoPanicLoader Proofs.NoPanicStart.
Import ListNotations.

(** the lexer: every text yields a token, the end of input or a reported error *)
Theorem C07_lexer_total : forall l p, fine (lex_next (lex_fuel l) l p).
Proof. exact lex_next_total. Qed.

(** the number of arguments is tested before a procedure body runs, at every application ... *)
Theorem C07_arity_tested_first : forall fuel p args env st fixed variadic,
  proc_arity p = Some (fixed, variadic) -> arity_ok (length args) fixed variadic = false ->
  apply_proc (S (S fuel)) p args env st = (Err ArgumentMissMatch None, st).
Proof. exact tramp_arity. Qed.

(** ... so that binding the parameters (arg_iter.next().unwrap()) cannot fail ... *)
Theorem C07_parameter_binding_cannot_panic : forall names st env args,
  length names <= length args ->
  exists rest st', bind_fixed st env names args = Ok (rest, st') /\ length rest = length args - length names.
Proof. exact bind_fixed_no_panic. Qed.

(** ... and no native procedure can miss an argument (the ~40 iter.next().unwrap() of base.rs) *)
Theorem C07_builtins_cannot_miss_an_argument : forall name args st fixed variadic,
  builtin_arity name = Some (fixed, variadic) -> str_eqb name apply_name = false ->
  arity_ok (length args) fixed variadic = true ->
  fst (builtin_call name args st) <> Panic PBuiltinArg.
Proof. exact builtin_no_arg_panic. Qed.

(** the reader: for every input text no panic and no exhaustion of the model's fuel, form after form *)
Theorem C07_reader_total : forall s, fine (read_next s).
Proof. exact read_next_total. Qed.
Theorem C07_read_text_total : forall text, fine (read_text text).
Proof. exact read_text_total. Qed.

(** the evaluator as a whole: if every procedure body in the expression and in the closures of the store
    is non-empty, no fuel and no input make it reach a panic site of the Rust code (arg_iter.next().unwrap(),
    unreachable!() on an empty body, iter.next().unwrap() of the natives, ...) *)
Theorem C07_evaluator_reaches_no_panic_site : forall fuel e env st x st',
  eval_expr fuel e env st = (Panic x, st') -> snb st -> nbe e -> x = PUnmodelled.
Proof. exact evaluator_reaches_no_panic_site. Qed.

(** ... the invariant is kept by evaluation ... *)
Theorem C07_bodies_stay_non_empty : forall fuel e env st r st',
  eval_expr fuel e env st = (r, st') -> r <> OutOfFuel -> snb st -> nbe e -> snb st' /\ forall v, r = Ok v -> vnb v.
Proof. exact bodies_stay_non_empty. Qed.

(** ... established by the transformer for everything it accepts (expressions, definitions, library
    bodies, macro expansions) ... *)
Theorem C07_transformer_rejects_empty_bodies : forall fuel d e s e',
  transform_stmt fuel d e = (Ok s, e') -> nbs s.
Proof. exact transform_bodies_non_empty. Qed.

(** ... and true of the state after start-up *)
Theorem C07_start_up_state_meets_the_invariant : snb boot_state.
Proof. exact boot_state_bodies_non_empty. Qed.

Theorem C07_transformed_form_reaches_no_panic_site : forall tf d senv e senv' fuel env st x st',
  transform_stmt tf d senv = (Ok (SExpr e), senv') -> snb st ->
  eval_expr fuel e env st = (Panic x, st') -> x = PUnmodelled.
Proof. exact transformed_form_reaches_no_panic_site. Qed.

(** the macro expander: `substitutions.get_mut(&var).unwrap()` never misses its key, for any pattern,
    any form, any table and any fuel ... *)
Theorem C07_matcher_never_misses_a_key : forall fuel lits p d s x, match_datum fuel lits p d s <> Panic x.
Proof. exact matcher_never_misses_a_key. Qed.

(** ... so the transformer as a whole (datum -> AST with macro expansion) has no panic in its reach *)
Theorem C07_transformer_never_panics : forall fuel d e x e', transform_stmt fuel d e <> (Panic x, e').
Proof. exact transformer_never_panics. Qed.

(** the interpreter level: imports, library instantiation and evaluation keep the invariant [cnb] (every
    procedure body non-empty in the store, in the exports of the instantiated libraries, in the native tables
    and in the parsed library definitions) and end in no panic site *)
Theorem C07_loader_reaches_no_panic_site : forall f, loader_nb f.
Proof. exact loader_nb_all. Qed.

(** Interpreter::eval on ANY text in any context meeting the invariant: neither the result nor the outcome
    of any form is a panic site of the Rust code *)
Theorem C07_eval_text_reaches_no_panic_site : forall fs cwd efuel text c r c' trace,
  eval_text fs cwd efuel text c = ((r, c'), trace) -> cnb c ->
  (forall x, r = Panic x -> x = PUnmodelled) /\ (forall x, In (Panic x) trace -> x = PUnmodelled).
Proof. exact eval_text_reaches_no_panic_site. Qed.

Theorem C07_eval_file_reaches_no_panic_site : forall fs cwd efuel dir file c r c' trace,
  eval_file fs cwd efuel dir file c = ((r, c'), trace) -> cnb c ->
  (forall x, r = Panic x -> x = PUnmodelled) /\ (forall x, In (Panic x) trace -> x = PUnmodelled).
Proof. exact eval_file_reaches_no_panic_site. Qed.

(** start-up establishes the invariant, for any text of the bundled libraries that it accepts *)
Theorem C07_new_instance_meets_the_invariant : forall bt wt bn wn st syn i st' syn',
  new_instance bt wt bn wn st syn = (Ok i, st', syn') -> snb st -> cnb {| c_inst := i; c_st := st'; c_syn := syn' |}.
Proof. exact new_instance_nb. Qed.

(** No input can crash the interpreter: any text, with any file system behind its imports and any fuel,
    evaluated by an interpreter fresh from start-up (the state computed from the files in /repo) *)
Theorem C07_no_program_text_panics_after_start_up : forall fs cwd efuel text syn r c' trace,
  eval_text fs cwd efuel text {| c_inst := boot_inst; c_st := boot_state; c_syn := syn |} = ((r, c'), trace) ->
  (forall x, r = Panic x -> x = PUnmodelled) /\ (forall x, In (Panic x) trace -> x = PUnmodelled).
Proof. exact no_program_text_panics_after_start_up. Qed.
