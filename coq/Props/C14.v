(** C14  Library loading terminates, and its outcome depends only on the library graph.
    Property theorems only, about the loader of Model/Interp.v ([eval_import_set] with the set
    i_in_progress = Interpreter::imported_library, the cache i_libraries, [get_library] with the
    file system as the oracle [fs]). *)
From Coq Require Import List.
From RV Require Import Model.Common Model.Ast Model.Value Model.Interp Proofs.ImportProofs Proofs.LoaderProofs.
Import ListNotations.

(** whatever an import attempt does - succeed, fail with any error, at any depth of the import
    graph - afterwards no library is left marked as being imported, and the root frame, program
    directory and import phase of the interpreter are as before. So the cyclic-import test of a
    later attempt never sees leftovers: the outcome does not depend on earlier attempts. *)
Theorem C14_in_progress_restored : forall fs cwd fuel efuel s c r c',
  eval_import_set fs cwd fuel efuel s c = (r, c') ->
  i_in_progress (c_inst c') = i_in_progress (c_inst c).
Proof. exact in_progress_restored. Qed.

Theorem C14_import_keeps_instance : forall fs cwd fuel efuel sets env c r c',
  eval_import fs cwd fuel efuel sets env c = (r, c') -> keeps c c'.
Proof. exact import_keeps_instance. Qed.

(** a cyclic import is reported exactly when the library is reached while it is being imported;
    otherwise the outcome is the outcome of loading it *)
Theorem C14_cyclic_iff_in_progress : forall fs cwd f efuel n l c,
  lib_get (i_libraries (c_inst c)) n = None ->
  (in_progress (i_in_progress (c_inst c)) n = true ->
     eval_import_set fs cwd (S f) efuel (IDirect n l) c = (Err LibraryImportCyclic l, c)) /\
  (in_progress (i_in_progress (c_inst c)) n = false ->
     exists r c1, get_library fs cwd f efuel n l
                    (with_inst c (set_progress (c_inst c) (n :: i_in_progress (c_inst c)))) = (r, c1) /\
       fst (eval_import_set fs cwd (S f) efuel (IDirect n l) c) = r).
Proof. exact cyclic_iff_in_progress. Qed.

(** a library that failed to load is not cached as loaded *)
Theorem C14_failed_load_not_cached : forall fs cwd f efuel n l c r c',
  lib_get (i_libraries (c_inst c)) n = None ->
  eval_import_set fs cwd (S f) efuel (IDirect n l) c = (r, c') ->
  (forall lib, r <> Ok lib) ->
  exists c1, i_libraries (c_inst c') = i_libraries (c_inst c1) /\
    (in_progress (i_in_progress (c_inst c)) n = true -> c' = c).
Proof. exact failed_load_not_cached. Qed.

(** library files are located relative to the program's directory *)
Theorem C14_file_lookup_relative_to_program : forall fs cwd f efuel n l c d,
  lib_get (i_factories (c_inst c)) n = None -> i_progdir (c_inst c) = Some d ->
  fs_get fs (d, map libname_elem_str n) = None ->
  get_library fs cwd (S f) efuel n l c = (Err LibraryNotFound l, c).
Proof. exact file_lookup_relative_to_program. Qed.
