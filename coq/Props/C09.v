(** C09  Exact arithmetic is exact, and inexactness is contagious.
    Property theorems only; each is closed by [exact] of a lemma of Proofs/NumProofs.v.
    [qval] is the rational value (in Coq's Q) of an exact number, [wf] excludes zero
    denominators, [normal] is the normal form of results, [small] is the property's
    "numerators and denominators below 2^15". *)
From Coq Require Import ZArith QArith Qround Qabs.
From RV Require Import Model.Common Model.Real32 Model.Num Spec.NumSpec Proofs.NumProofs.

(** never a wrong exact number: an exact result of + - * is the exact sum/difference/product *)
Theorem C09_add_never_wrong : forall a b, wf a -> wf b -> is_exact (num_add a b) = true ->
  is_exact a = true /\ is_exact b = true /\ (qval (num_add a b) == qval a + qval b)%Q.
Proof. exact add_exact_correct. Qed.
Theorem C09_sub_never_wrong : forall a b, wf a -> wf b -> is_exact (num_sub a b) = true ->
  is_exact a = true /\ is_exact b = true /\ (qval (num_sub a b) == qval a - qval b)%Q.
Proof. exact sub_exact_correct. Qed.
Theorem C09_mul_never_wrong : forall a b, wf a -> wf b -> is_exact (num_mul a b) = true ->
  is_exact a = true /\ is_exact b = true /\ (qval (num_mul a b) == qval a * qval b)%Q.
Proof. exact mul_exact_correct. Qed.
Theorem C09_div_never_wrong : forall a b r, wf a -> wf b -> num_div a b = Ok r -> is_exact r = true ->
  is_exact a = true /\ is_exact b = true /\ ~ (qval b == 0)%Q /\ (qval r == qval a / qval b)%Q.
Proof. exact div_exact_correct. Qed.
Theorem C09_abs_never_wrong : forall a, wf a -> is_exact (num_abs a) = true ->
  is_exact a = true /\ (qval (num_abs a) == Qabs (qval a))%Q.
Proof. exact abs_exact_correct. Qed.

(** division by exact zero is an error, and only that *)
Theorem C09_div_by_exact_zero : forall a b, wf a -> wf b -> is_exact a = true -> is_exact b = true ->
  (num_div a b = Err DivisionByZero None <-> (qval b == 0)%Q).
Proof. exact div_by_zero_iff. Qed.

(** always exact on the property's claimed range *)
Theorem C09_add_small_exact : forall a b, small a -> small b -> is_exact (num_add a b) = true.
Proof. exact add_small_exact. Qed.
Theorem C09_sub_small_exact : forall a b, small a -> small b -> is_exact (num_sub a b) = true.
Proof. exact sub_small_exact. Qed.
Theorem C09_mul_small_exact : forall a b, small a -> small b -> is_exact (num_mul a b) = true.
Proof. exact mul_small_exact. Qed.
Theorem C09_div_small_exact : forall a b, small a -> small b -> ~ (qval b == 0)%Q ->
  exists r, num_div a b = Ok r /\ is_exact r = true.
Proof. exact div_small_exact. Qed.
Theorem C09_abs_small_exact : forall a, small a -> is_exact (num_abs a) = true.
Proof. exact abs_small_exact. Qed.

(** floor, ceiling: the greatest integer not above / least integer not below *)
Theorem C09_floor : forall a, wf a -> is_exact (num_floor a) = true ->
  is_exact a = true /\ num_floor a = NInt (Qfloor (qval a)).
Proof. exact floor_correct. Qed.
Theorem C09_ceiling : forall a, wf a -> is_exact (num_ceiling a) = true ->
  is_exact a = true /\ num_ceiling a = NInt (Qceiling (qval a)).
Proof. exact ceiling_correct. Qed.
Theorem C09_floor_total : forall a, wf32 a -> is_exact a = true ->
  a <> NRat (-2147483648) (-1) -> is_exact (num_floor a) = true.
Proof. exact floor_exact_total. Qed.

(** floor-quotient, floor-remainder: n = d*q + r with q = floor (n/d) *)
Theorem C09_floor_quotient : forall n d q, wf n -> wf d ->
  num_floor_quotient n d = Ok q -> is_exact q = true ->
  is_exact n = true /\ is_exact d = true /\ ~ (qval d == 0)%Q /\ q = NInt (Qfloor (qval n / qval d)).
Proof. exact floor_quotient_correct. Qed.
Theorem C09_floor_remainder : forall n d r, wf n -> wf d ->
  num_floor_remainder n d = Ok r -> is_exact r = true ->
  exists q : Z, num_floor_quotient n d = Ok (NInt q) /\
    q = Qfloor (qval n / qval d) /\ (qval n == qval d * inject_Z q + qval r)%Q.
Proof. exact floor_remainder_correct. Qed.

(** results are in normal form (positive denominator, lowest terms, i32 range) *)
Theorem C09_add_normal : forall a b, normal (num_add a b).
Proof. exact add_normal. Qed.
Theorem C09_sub_normal : forall a b, normal (num_sub a b).
Proof. exact sub_normal. Qed.
Theorem C09_mul_normal : forall a b, normal (num_mul a b).
Proof. exact mul_normal. Qed.
Theorem C09_div_normal : forall a b r, num_div a b = Ok r -> normal r.
Proof. exact div_normal. Qed.

(** inexactness is contagious: binary32 operation on the converted operands *)
Theorem C09_add_contagion : forall a b, is_exact a = false \/ is_exact b = false ->
  num_add a b = NReal (fadd (as_real a) (as_real b)).
Proof. exact add_contagion. Qed.
Theorem C09_sub_contagion : forall a b, is_exact a = false \/ is_exact b = false ->
  num_sub a b = NReal (fsub (as_real a) (as_real b)).
Proof. exact sub_contagion. Qed.
Theorem C09_mul_contagion : forall a b, is_exact a = false \/ is_exact b = false ->
  num_mul a b = NReal (fmul (as_real a) (as_real b)).
Proof. exact mul_contagion. Qed.
Theorem C09_div_contagion : forall a b, is_exact a = false \/ is_exact b = false ->
  num_div a b = Ok (NReal (fdiv (as_real a) (as_real b))).
Proof. exact div_inexact_total. Qed.
(** an unrepresentable exact sum becomes the inexact sum, not another exact number *)
Theorem C09_add_fallback : forall a b, is_exact (num_add a b) = false ->
  num_add a b = NReal (fadd (as_real a) (as_real b)).
Proof. exact add_fallback. Qed.

(** non-vacuity: concrete operands meet the hypotheses, including the repaired cases *)
Example C09_ex_floor : num_floor (NRat (-1) 2) = NInt (-1) /\ num_ceiling (NRat 1 2) = NInt 1.
Proof. split; vm_compute; reflexivity. Qed.
Example C09_ex_div : num_div (NInt 1) (NInt (-2)) = Ok (NRat (-1) 2) /\ small (NInt 1) /\ small (NInt (-2)).
Proof. split; [vm_compute; reflexivity|]. split; vm_compute; reflexivity. Qed.
Example C09_ex_overflow : is_exact (num_add (NInt 2147483647) (NInt 1)) = false.
Proof. vm_compute. reflexivity. Qed.
