(** C17  Running a program file: output, diagnostics and exit status.
    Property theorems only. [run_program] is `ruschm FILE` (Model/Cli.v), [eval_file]/[eval_loop]
    the evaluation of the file's forms, [file_chars] what io.rs hands to the lexer;
    [unlines_with eol ls] is the text of the lines [ls] each followed by [eol]. *)
From Coq Require Import ZArith NArith List Bool.
From RV Require Import Model.Common Model.Value Model.Interp Model.Cli Proofs.CliProofs.
Import ListNotations.

(** running a file is evaluating its text on the interpreter, with the program's directory set *)
Theorem C17_run_file_is_eval : forall fs cwd efuel dir file c text,
  fs_get fs (dir, file) = Some (FFile text) ->
  eval_file fs cwd efuel dir file c =
  eval_text fs cwd efuel (file_chars text) (with_inst c (set_progdir (c_inst c) (Some dir))).
Proof. exact run_file_is_eval. Qed.

(** LF and CR LF files, with or without a final newline, are the same program *)
Theorem C17_lf_file_reads_as_itself : forall ls, forallb clean_line ls = true ->
  file_chars (unlines_with [10%N] ls) = unlines_with [10%N] ls.
Proof. exact file_chars_lf. Qed.
Theorem C17_crlf_reads_as_lf : forall ls, forallb clean_line ls = true ->
  file_chars (unlines_with [13%N; 10%N] ls) = unlines_with [10%N] ls.
Proof. exact file_chars_crlf. Qed.
Theorem C17_final_newline_supplied : forall ls last, forallb clean_line ls = true ->
  forallb (fun c => negb (N.eqb c 10)) last = true -> last <> [] ->
  file_chars (unlines_with [10%N] ls ++ last) = unlines_with [10%N] (ls ++ [last]).
Proof. exact file_chars_no_final_newline. Qed.

(** the forms are evaluated in order; the run stops at the first failing form, whose outcome is
    the outcome of the run; every form before it succeeded *)
Theorem C17_stops_at_first_failure : forall fs cwd fuel efuel s last c tr r c' tr',
  eval_loop fs cwd fuel efuel s last c tr = ((r, c'), tr') -> r <> OutOfFuel ->
  exists more, tr' = tr ++ more /\
    ((is_ok r = true /\ forallb is_ok more = true) \/
     (is_ok r = false /\ exists oks, more = oks ++ [r] /\ forallb is_ok oks = true)).
Proof. exact eval_loop_trace. Qed.

(** status 0 exactly when every form succeeded (then no diagnostic); a failure gives one
    diagnostic with the failing form's error and a non-zero status *)
Theorem C17_status_and_diagnostic : forall fs cwd efuel dir file c rr trace,
  run_program fs cwd efuel dir file c = (rr, trace) ->
  (rr_status rr = 0%Z <-> rr_diag rr = None /\ exists v, fst (fst (eval_file fs cwd efuel dir file c)) = Ok v) /\
  (forall k l, rr_diag rr = Some (k, l) <-> fst (fst (eval_file fs cwd efuel dir file c)) = Err k l) /\
  (forall k l, rr_diag rr = Some (k, l) -> rr_status rr = 255%Z).
Proof. exact status_zero_iff. Qed.

(** a missing or unreadable file: a diagnostic and a non-zero status, no output *)
Theorem C17_unreadable_file : forall fs cwd efuel dir file c,
  (fs_get fs (dir, file) = None \/ fs_get fs (dir, file) = Some FBadUtf8 \/ fs_get fs (dir, file) = Some FDir) ->
  fst (run_program fs cwd efuel dir file c) =
  {| rr_stdout := out (c_st c); rr_status := 255; rr_diag := Some (IOError, None) |}.
Proof. exact unreadable_file. Qed.
