(** C12  Import sets bind exactly the names the import-set algebra yields.
    Property theorems only. [denotes libs s x v] is the R7RS import-set algebra (Spec/ImportSpec.v);
    [cached c] are the libraries interpreter [c] has instantiated; [local_get st env x] is the
    binding of [x] in frame [env] itself. *)
From Coq Require Import List Permutation.
From RV Require Import Model.Common Model.Ast Model.Value Model.Interp Spec.ImportSpec Proofs.ImportProofs.
Import ListNotations.

(** for every import-set term of any nesting: the computed list binds exactly what the
    algebra yields, each name to the library's value under the original name; nothing else
    about the interpreter changes *)
Theorem C12_import_set_denotes : forall fs cwd efuel s c fuel,
  admissible (cached c) s -> iset_depth s <= fuel ->
  exists l, eval_import_set fs cwd fuel efuel s c = (Ok l, c) /\
            forall x v, In (x, v) l <-> denotes (cached c) s x v.
Proof. exact import_set_denotes. Qed.

(** the same on every run: the order in which a library's table is enumerated is irrelevant *)
Theorem C12_import_deterministic : forall fs cwd efuel s c c' fuel,
  (forall n a b, cached c n = Some a -> cached c' n = Some b -> Permutation a b) ->
  admissible (cached c) s -> admissible (cached c') s -> iset_depth s <= fuel ->
  exists l l', eval_import_set fs cwd fuel efuel s c = (Ok l, c) /\
               eval_import_set fs cwd fuel efuel s c' = (Ok l', c') /\ Permutation l l'.
Proof. exact import_deterministic. Qed.

(** an import declaration (re)defines exactly the merged bindings in the importing frame and
    changes no other binding of any frame, no vector, no output, nothing of the instance *)
Theorem C12_eval_import_adds_exactly : forall fs cwd efuel sets env c f defs,
  merged (cached c) sets [] = Some defs ->
  (forall s, In s sets -> iset_depth s <= f) ->
  env < length (frames (c_st c)) ->
  exists c', eval_import fs cwd (S f) efuel sets env c = (Ok tt, c') /\
    c_inst c' = c_inst c /\ c_syn c' = c_syn c /\
    vectors (c_st c') = vectors (c_st c) /\ out (c_st c') = out (c_st c) /\
    (forall x v, In (x, v) defs -> local_get (c_st c') env x = Some v) /\
    (forall b y, (env <> b \/ ~ In y (map fst defs)) -> local_get (c_st c') b y = local_get (c_st c) b y).
Proof. exact eval_import_adds_exactly. Qed.

(** several import sets contribute the union (a later set overrides an earlier one) *)
Theorem C12_union : forall libs sets acc defs x,
  merged libs sets acc = Some defs ->
  exists lists, Forall2 (fun s l => import_list libs s = Some l) sets lists /\
     alist_get defs x =
       match alist_get (rev (concat lists)) x with Some v => Some v | None => alist_get acc x end.
Proof. exact merged_get. Qed.

Theorem C12_import_list_is_denotation : forall libs s l,
  admissible libs s -> import_list libs s = Some l ->
  forall x v, In (x, v) l <-> denotes libs s x v.
Proof. exact import_list_denotes. Qed.

(** the first import of a natively provided library instantiates it, caches it, and leaves
    the rest of the interpreter as it was *)
Theorem C12_first_import_native : forall fs cwd efuel n l c f defs,
  cached c n = None -> in_progress (i_in_progress (c_inst c)) n = false ->
  lib_get (i_factories (c_inst c)) n = Some (FNative defs) ->
  exists c', eval_import_set fs cwd (S (S f)) efuel (IDirect n l) c = (Ok defs, c') /\
    cached c' n = Some defs /\ c_st c' = c_st c /\ c_syn c' = c_syn c /\
    i_in_progress (c_inst c') = i_in_progress (c_inst c) /\
    i_factories (c_inst c') = i_factories (c_inst c) /\ i_env (c_inst c') = i_env (c_inst c).
Proof. exact first_import_native. Qed.
