(** C06  The reader maps text to the data its tokens denote.
    Property theorems only, about the lexer model (Model/Lexer.v; [lex_next] is Lexer::try_next with
    the cursor position after the token). [adv_all cs p] is the cursor after the characters [cs]. *)
From Coq Require Import NArith List Bool.
From RV Require Import Model.Common Model.Datum Model.Lexer Model.Reader Proofs.LexProofs Proofs.ReaderProofs.
Import ListNotations.
Local Open Scope N_scope.

(** layout: any non-empty run of white space before a token is skipped - the token sequence
    does not depend on the amount or kind of white space (blank, tab, CR, LF) *)
Theorem C06_skip_whitespace : forall f w ws rest p,
  forallb is_ws (w :: ws) = true ->
  match rest with [] => True | c :: _ => is_ws c = false end ->
  lex_next (S f) (w :: ws ++ rest) p = lex_next f rest (adv_all (w :: ws) p).
Proof. exact lex_skip_whitespace. Qed.

(** a comment (from ; to the end of the line) is skipped like white space *)
Theorem C06_skip_comment : forall f body rest p,
  forallb not_eol body = true ->
  match rest with [] => True | c :: _ => not_eol c = false end ->
  lex_next (S f) (c_semi :: body ++ rest) p = lex_next f rest (adv_all (c_semi :: body) p).
Proof. exact lex_skip_comment. Qed.

(** parentheses and the quote mark are tokens by themselves, whatever follows *)
Theorem C06_lparen : forall f rest p,
  lex_next (S f) (c_lparen :: rest) p = Ok (Some (TLParen, adv c_lparen p), rest, adv c_lparen p).
Proof. exact lex_lparen. Qed.
Theorem C06_rparen : forall f rest p,
  lex_next (S f) (c_rparen :: rest) p = Ok (Some (TRParen, adv c_rparen p), rest, adv c_rparen p).
Proof. exact lex_rparen. Qed.
Theorem C06_quote : forall f rest p,
  lex_next (S f) (c_quote :: rest) p = Ok (Some (TQuote, adv c_quote p), rest, adv c_quote p).
Proof. exact lex_quote. Qed.

(** an identifier token is split only at a delimiter: initial, subsequent characters, then a
    delimiter or the end of the input; it denotes exactly those characters *)
Theorem C06_identifier : forall f c cs rest p,
  plain_initial c = true -> forallb is_subsequent cs = true ->
  match rest with [] => True | d :: _ => is_delimiter d = true end ->
  lex_next (S f) (c :: cs ++ rest) p =
  Ok (Some (TIdent (c :: cs), adv_all (c :: cs) p), rest, adv_all (c :: cs) p).
Proof. exact lex_identifier. Qed.

(** the lexer is total: with the fuel the model gives it, every text yields a token, the end of
    input or a reported error - never a panic, never a timeout *)
Theorem C06_lexer_total : forall l p, fine (lex_next (lex_fuel l) l p).
Proof. exact lex_next_total. Qed.

(** every token costs at least one character of input, and the reader always answers - a datum, the
    end of the input or a reported syntax error - within the fuel the model gives it, for every input;
    a datum costs at least one character, so a whole text is read in finitely many steps *)
Theorem C06_token_consumes_input : forall fuel l p t tp r p',
  lex_next fuel l p = Ok (Some (t, tp), r, p') -> (length r < length l)%nat.
Proof. exact lex_next_progress. Qed.
Theorem C06_reader_always_answers : forall s, fine (read_next s).
Proof. exact read_next_total. Qed.
Theorem C06_datum_consumes_input : forall s d s', read_next s = Ok (Some d, s') -> (L s' < L s)%nat.
Proof. exact read_next_progress. Qed.
Theorem C06_whole_text_is_read : forall text, fine (read_text text).
Proof. exact read_text_total. Qed.
