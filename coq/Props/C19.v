(** C19  Interpreter instances are isolated from one another.
    Property theorems only. In the model the instances of a thread share two things: the syntax
    table (it is a thread-local global in the code: known finding F5) and the address space of the
    store. The first group of theorems delimits the first channel and gives each instance a root frame
    of its own. The second group (Proofs/RegionProofs.v) is the region invariant for the second
    channel: a region is a set of frames F and vectors V whose contents refer only to F and V
    ([stok]); evaluation started inside a region writes nothing outside it, and two disjoint regions
    stay disjoint and intact whichever of them evaluates - an invariant of every interleaving.
    The fourth group (Proofs/Locality.v) is the read half: what an evaluation computes is determined by
    the frames and vectors of its region alone - from any state of the same size that holds the same
    frames and vectors on the region it gives the same result. Not proved: the same up to a renaming
    of addresses when the other instance has allocated a different AMOUNT (allocation indices shift);
    the correspondence check compares B interleaved with A against B alone.
    The third group (Proofs/LoaderRegion.v) lifts the invariant to whole top-level forms evaluated
    through an instance - imports and library instantiation (file and registered libraries, nested
    import sets, library bodies), definitions, syntax definitions, expressions. *)
From Coq Require Import List NArith.
From RV Require Import Model.Common Model.Ast Model.Value Model.Reader Model.Interp
  Model.Eval Spec.EvalSpec Proofs.ImportProofs Proofs.LoaderProofs Proofs.WorldProofs Proofs.EvalProofs
  Proofs.LibBoot Proofs.RegionProofs Proofs.RegionBoot Proofs.LoaderRegion Proofs.InstBoot Proofs.Locality.
Import ListNotations.

(** reading and transforming a form changes nothing but (possibly) the syntax table *)
Theorem C19_parsing_touches_only_syntax : forall c s,
  c_st (snd (parse_next c s)) = c_st c /\ c_inst (snd (parse_next c s)) = c_inst c.
Proof. exact parsing_touches_only_syntax. Qed.

(** evaluating an expression or a definition never touches the syntax table *)
Theorem C19_evaluation_keeps_syntax : forall fuel stm env c,
  c_syn (snd (eval_expr_or_def fuel stm env c)) = c_syn c /\
  c_inst (snd (eval_expr_or_def fuel stm env c)) = c_inst c.
Proof. exact evaluation_keeps_syntax. Qed.

(** a new instance has a root frame that did not exist before, and starts clean *)
Theorem C19_new_instance_fresh_root : forall base write bn wn st syn st' syn' inst,
  new_instance base write bn wn st syn = (Ok inst, st', syn') ->
  i_env inst = length (frames st) /\ nth_error (frames st) (i_env inst) = None /\
  i_in_progress inst = [] /\ i_import_end inst = false /\ i_progdir inst = None.
Proof. exact new_instance_fresh_root. Qed.

(** imports never touch root frame address, program directory, in-progress set of the instance *)
Theorem C19_import_keeps_instance : forall fs cwd fuel efuel sets env c r c',
  eval_import fs cwd fuel efuel sets env c = (r, c') -> keeps c c'.
Proof. exact import_keeps_instance. Qed.

(** * the region invariant *)

(** evaluation started inside a region (env in F, everything stored in F and V refers only to F and V)
    leaves every frame and vector outside the region exactly as it was *)
Theorem C19_outside_untouched : forall st env e r st' F V,
  ev st env e r st' -> stok F V st -> F env -> untouched F V st st'.
Proof. exact outside_untouched. Qed.

Theorem C19_evaluator_outside_untouched : forall fuel e env st r st' F V,
  eval_expr fuel e env st = (r, st') -> noF r -> stok F V st -> F env -> untouched F V st st'.
Proof. exact eval_outside_untouched. Qed.

(** two disjoint regions: whichever evaluates, both stay regions, stay disjoint, the other one's
    frames and vectors are what they were, and the value produced belongs to the evaluating one *)
Theorem C19_two_regions : forall st env e r st' F1 V1 F2 V2,
  ev st env e r st' ->
  stok F1 V1 st -> stok F2 V2 st -> disjoint F1 F2 -> disjoint V1 V2 -> F1 env ->
  exists F1' V1',
    stok F1' V1' st' /\ stok F2 V2 st' /\ disjoint F1' F2 /\ disjoint V1' V2 /\
    incl_set F1 F1' /\ incl_set V1 V1' /\
    (forall a, F2 a -> nth_error (frames st') a = nth_error (frames st) a) /\
    (forall x, V2 x -> nth_error (vectors st') x = nth_error (vectors st) x) /\
    (forall v, r = Ok v -> vok F1' V1' v).
Proof. exact two_regions. Qed.

(** a top-level definition of a value of the region keeps the region; the root frame of a new instance
    is a region of its own, disjoint from every existing one, which stays intact *)
Theorem C19_define_in_region : forall st env x v F V,
  stok F V st -> F env -> vok F V v -> stok F V (env_define st env x v) /\ untouched F V st (env_define st env x v).
Proof. exact define_in_region. Qed.

Theorem C19_new_root_region : forall st F V,
  stok F V st ->
  let a := fst (alloc_frame st None) in let st' := snd (alloc_frame st None) in
  stok (fun b => b = a) (fun _ => False) st' /\ disjoint F (fun b => b = a) /\ stok F V st'.
Proof. exact new_root_region. Qed.

(** not vacuous: the state after start-up (computed from the sources in /repo) is a region *)
Theorem C19_boot_state_is_a_region : stok (all_frames boot_state) (all_vectors boot_state) boot_state /\
  all_frames boot_state boot_root /\ 2 <= length (frames boot_state).
Proof. exact boot_state_is_a_region. Qed.

(** * instances *)

(** an instance belongs to a region when its root frame is in it and the values it holds outside the
    store (exports of instantiated libraries, native factory tables) refer only to the region. Any
    top-level form evaluated through it - (import ...) with everything the loader does, a definition,
    an expression - makes a region step and leaves the instance in the new region *)
Theorem C19_top_level_form_stays_in_region : forall fs cwd efuel stm c r c' F V,
  eval_ast fs cwd efuel stm (i_env (c_inst c)) c = (r, c') -> noF r ->
  stok F V (c_st c) -> inst_ok F V (c_inst c) ->
  exists F' V', step_ok F V (c_st c) F' V' (c_st c') /\ inst_ok F' V' (c_inst c').
Proof. exact eval_ast_region. Qed.

(** two instances with disjoint regions over one store: whatever top-level form one of them evaluates,
    the other's frames and vectors are exactly what they were; both stay well-formed and disjoint. By
    induction this holds for every interleaving of forms through the two instances *)
Theorem C19_two_instances : forall fs cwd efuel stm c r c' F1 V1 i2 F2 V2,
  eval_ast fs cwd efuel stm (i_env (c_inst c)) c = (r, c') -> noF r ->
  stok F1 V1 (c_st c) -> inst_ok F1 V1 (c_inst c) ->
  stok F2 V2 (c_st c) -> inst_ok F2 V2 i2 -> disjoint F1 F2 -> disjoint V1 V2 ->
  exists F1' V1',
    stok F1' V1' (c_st c') /\ inst_ok F1' V1' (c_inst c') /\
    stok F2 V2 (c_st c') /\ inst_ok F2 V2 i2 /\ disjoint F1' F2 /\ disjoint V1' V2 /\
    (forall a, F2 a -> nth_error (frames (c_st c')) a = nth_error (frames (c_st c)) a) /\
    (forall x, V2 x -> nth_error (vectors (c_st c')) x = nth_error (vectors (c_st c)) x).
Proof. exact two_instances. Qed.

(** not vacuous: the instance created at start-up belongs to the region made of the start-up store *)
Theorem C19_boot_instance_in_region :
  inst_ok (all_frames boot_state) (all_vectors boot_state) boot_inst /\ i_env boot_inst = boot_root.
Proof. exact boot_instance_in_region. Qed.

(** * the read half (Proofs/Locality.v) *)

(** [same_on F V st w]: [w] has as many frames and vectors as [st] and holds the same ones on [F] and [V] -
    it may hold anything else elsewhere, for instance what another instance defined or mutated.
    An evaluation started in a region gives THE SAME RESULT (value, or error with its location) from [w] as
    from [st], and the states reached agree again on the region reached. With the region invariant above
    (nothing outside the region is written) this is non-interference in both directions: what the other
    instance's frames hold can neither be changed nor observed. (Same sizes: how MUCH the other instance has
    allocated shifts the addresses of later allocations; a value never shows its address to a program -
    display prints contents, eqv? on vectors compares addresses of the same store - but the statement up to
    renaming is not proved; the correspondence check compares B interleaved with A against B alone.) *)
Theorem C19_evaluation_reads_only_its_region : forall st env e r st' F V w,
  ev st env e r st' -> stok F V st -> F env -> same_on F V st w ->
  exists w', ev w env e r w' /\
    forall F' V', step_ok F V st F' V' st' -> same_on F' V' st' w'.
Proof. exact evaluation_reads_only_its_region. Qed.

Theorem C19_application_reads_only_its_region : forall st p args r st' F V w,
  app st p args r st' -> stok F V st -> vok F V p -> Forall (vok F V) args -> same_on F V st w ->
  exists w', app w p args r w' /\
    forall F' V', step_ok F V st F' V' st' -> same_on F' V' st' w'.
Proof. exact application_reads_only_its_region. Qed.

(** for the evaluator of the model (the one the correspondence check runs against the code) *)
Theorem C19_value_independent_of_the_rest : forall fuel e env st v st' F V w,
  eval_expr fuel e env st = (Ok v, st') -> stok F V st -> F env -> same_on F V st w ->
  exists n w', (forall f, n <= f -> eval_expr f e env w = (Ok v, w')) /\
    forall F' V', step_ok F V st F' V' st' -> same_on F' V' st' w'.
Proof. exact eval_value_independent_of_the_rest. Qed.

Theorem C19_failure_independent_of_the_rest : forall fuel e env st r st' F V w,
  eval_expr fuel e env st = (r, st') -> failed r -> stok F V st -> F env -> same_on F V st w ->
  exists r' n w', failed r' /\ (forall f, n <= f -> eval_expr f e env w = (r', w')) /\
    forall F' V', step_ok F V st F' V' st' -> same_on F' V' st' w'.
Proof. exact eval_failure_independent_of_the_rest. Qed.

(** both halves for two instances over one store *)
Theorem C19_two_instances_do_not_see_each_other : forall st env e r st' F1 V1 F2 V2 w,
  ev st env e r st' -> stok F1 V1 st -> stok F2 V2 st -> disjoint F1 F2 -> disjoint V1 V2 -> F1 env ->
  same_on F1 V1 st w ->
  exists w', ev w env e r w' /\
    (forall a, F2 a -> nth_error (frames st') a = nth_error (frames st) a) /\
    (forall x, V2 x -> nth_error (vectors st') x = nth_error (vectors st) x) /\
    (forall a, F2 a -> nth_error (frames w') a = nth_error (frames w) a) /\
    (forall x, V2 x -> nth_error (vectors w') x = nth_error (vectors w) x).
Proof. exact two_instances_do_not_see_each_other. Qed.

(** not vacuous: two different states that are the same on a region *)
Theorem C19_same_on_is_not_equality :
  let st := {| frames := [{| f_parent := None; f_defs := [] |}; {| f_parent := None; f_defs := [] |}];
               vectors := []; out := []; ticks := [] |} in
  let w := {| frames := [{| f_parent := None; f_defs := [] |}; {| f_parent := None; f_defs := [([120%N], VNil)] |}];
              vectors := []; out := []; ticks := [] |} in
  same_on (fun a => a = 0) (fun _ => False) st w /\ stok (fun a => a = 0) (fun _ => False) st /\ st <> w.
Proof. exact same_on_is_not_equality. Qed.
