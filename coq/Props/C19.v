(** C19  Interpreter instances are isolated from one another.
    Property theorems only - PARTIAL. In the model the instances of a thread share two things:
    the syntax table (it is a thread-local global in the code: known finding F5) and the address
    space of the store. These theorems delimit the first channel and give each instance a root
    frame of its own; that evaluation through one instance never writes a frame reachable only from
    another (the region invariant) is not proved here - it is checked by the correspondence, which
    compares B interleaved with A against B alone. *)
From Coq Require Import List.
From RV Require Import Model.Common Model.Ast Model.Value Model.Reader Model.Interp
  Proofs.ImportProofs Proofs.LoaderProofs Proofs.WorldProofs.
Import ListNotations.

(** reading and transforming a form changes nothing but (possibly) the syntax table *)
Theorem C19_parsing_touches_only_syntax : forall c s,
  c_st (snd (parse_next c s)) = c_st c /\ c_inst (snd (parse_next c s)) = c_inst c.
Proof. exact parsing_touches_only_syntax. Qed.

(** evaluating an expression or a definition never touches the syntax table *)
Theorem C19_evaluation_keeps_syntax : forall fuel stm env c,
  c_syn (snd (eval_expr_or_def fuel stm env c)) = c_syn c /\
  c_inst (snd (eval_expr_or_def fuel stm env c)) = c_inst c.
Proof. exact evaluation_keeps_syntax. Qed.

(** a new instance has a root frame that did not exist before, and starts clean *)
Theorem C19_new_instance_fresh_root : forall base write st syn st' syn' inst,
  new_instance base write st syn = (Ok inst, st', syn') ->
  i_env inst = length (frames st) /\ nth_error (frames st) (i_env inst) = None /\
  i_in_progress inst = [] /\ i_import_end inst = false /\ i_progdir inst = None.
Proof. exact new_instance_fresh_root. Qed.

(** imports never touch root frame address, program directory, in-progress set of the instance *)
Theorem C19_import_keeps_instance : forall fs cwd fuel efuel sets env c r c',
  eval_import fs cwd fuel efuel sets env c = (r, c') -> keeps c c'.
Proof. exact import_keeps_instance. Qed.
