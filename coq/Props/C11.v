(** C11  The list library computes what its specification says.
    Property theorems only - PARTIAL. Proved here: the native part (car cdr cons eqv? apply).
    The procedures written in Scheme in base.sld (append map for-each fold-left fold-right list-tail
    list-ref last-pair memq memv equal? c[ad]r ...) are executed by the model's evaluator on the text
    that is in /repo now and checked against an independent model on python lists on every run;
    their inductive specifications are not proved in this file (see Proofs/LibProofs.v if present). *)
From Coq Require Import List.
From RV Require Import Model.Common Model.Value Model.Builtins Model.Eval Spec.EvalSpec Proofs.ListProofs.
Import ListNotations.

Theorem C11_car_of_pair : forall a b st, builtin_call n_car [VPair a b] st = (Ok a, st).
Proof. exact car_of_pair. Qed.
Theorem C11_cdr_of_pair : forall a b st, builtin_call n_cdr [VPair a b] st = (Ok b, st).
Proof. exact cdr_of_pair. Qed.
Theorem C11_cons_builds_pair : forall a b st, builtin_call n_cons [a; b] st = (Ok (VPair a b), st).
Proof. exact cons_builds_pair. Qed.

(** an error rather than a value when the list is too short *)
Theorem C11_car_of_non_pair : forall v st, (forall a b, v <> VPair a b) ->
  builtin_call n_car [v] st = (Err TypeMisMatch None, st).
Proof. exact car_of_non_pair. Qed.
Theorem C11_cdr_of_non_pair : forall v st, (forall a b, v <> VPair a b) ->
  builtin_call n_cdr [v] st = (Err TypeMisMatch None, st).
Proof. exact cdr_of_non_pair. Qed.

(** (apply p a ... l) is (p a ... l1 ... ln) *)
Theorem C11_apply_spreads_the_list : forall st p init l r st',
  is_proc p = true -> app st p (init ++ l) r st' ->
  app st (VProcB apply_name) (p :: init ++ [vlist l]) r st'.
Proof. exact apply_spreads_the_list. Qed.

Theorem C11_eqv_on_pairs : forall a b c d st,
  builtin_call n_eqv [VPair a b; VPair c d] st = (Ok (VBool false), st).
Proof. exact eqv_on_pairs. Qed.
Theorem C11_eqv_on_empty_lists : forall st, builtin_call n_eqv [VNil; VNil] st = (Ok (VBool true), st).
Proof. exact eqv_on_empty_lists. Qed.
