(** C11  The list library computes what its specification says.
    Property theorems only.

    Native part (car cdr cons eqv? apply): equations about [builtin_call] and the rule for apply.

    Scheme part (base.sld): [lib_call name args y] says that the procedure the library defines under
    [name] - the closure created from the text of base.sld that is in /repo now (Gen/BaseSld.v is
    regenerated on every run) - applied to [args] yields [y] by the rules of Spec/EvalSpec.v, in every
    state that holds the library, touching no existing frame, vector, output or tick.
    [C11_library_after_start_up] shows that the state after start-up holds the library and binds the
    global names to those closures; [C11_lib_call_runs] that the evaluator of the model then returns [y].
    The specification functions ([vtail], [vmem], [vequal], [is_proper], [vapp_tail], [vlast]) are in
    Spec/ListSpec.v. For the higher-order procedures the procedure argument is assumed to compute a
    function without side effects ([pure_fun1], [pure_fun2]); the order and number of calls with
    side effects is covered by the correspondence check (tick traces), not by these theorems. *)
From Coq Require Import ZArith List.
From RV Require Import Model.Common Model.Num Model.Value Model.Builtins Model.Eval Spec.EvalSpec Spec.ListSpec
  Proofs.ListProofs Proofs.LibBase Proofs.LibLists Proofs.LibEqual Proofs.LibHigher Proofs.LibAppend Proofs.LibBoot.
Import ListNotations.
Local Open Scope Z_scope.

Theorem C11_car_of_pair : forall a b st, builtin_call n_car [VPair a b] st = (Ok a, st).
Proof. exact car_of_pair. Qed.
Theorem C11_cdr_of_pair : forall a b st, builtin_call n_cdr [VPair a b] st = (Ok b, st).
Proof. exact cdr_of_pair. Qed.
Theorem C11_cons_builds_pair : forall a b st, builtin_call n_cons [a; b] st = (Ok (VPair a b), st).
Proof. exact cons_builds_pair. Qed.

(** an error rather than a value when the list is too short *)
Theorem C11_car_of_non_pair : forall v st, (forall a b, v <> VPair a b) ->
  builtin_call n_car [v] st = (Err TypeMisMatch None, st).
Proof. exact car_of_non_pair. Qed.
Theorem C11_cdr_of_non_pair : forall v st, (forall a b, v <> VPair a b) ->
  builtin_call n_cdr [v] st = (Err TypeMisMatch None, st).
Proof. exact cdr_of_non_pair. Qed.

(** (apply p a ... l) is (p a ... l1 ... ln) *)
Theorem C11_apply_spreads_the_list : forall st p init l r st',
  is_proc p = true -> app st p (init ++ l) r st' ->
  app st (VProcB apply_name) (p :: init ++ [vlist l]) r st'.
Proof. exact apply_spreads_the_list. Qed.

Theorem C11_eqv_on_pairs : forall a b c d st,
  builtin_call n_eqv [VPair a b; VPair c d] st = (Ok (VBool false), st).
Proof. exact eqv_on_pairs. Qed.
Theorem C11_eqv_on_empty_lists : forall st, builtin_call n_eqv [VNil; VNil] st = (Ok (VBool true), st).
Proof. exact eqv_on_empty_lists. Qed.

(** * the procedures written in Scheme *)

(** the compositions of car and cdr: the component the name spells *)
Theorem C11_caar : forall a b c, lib_call [99;97;97;114] [VPair (VPair a b) c] a.
Proof. exact caar_spec. Qed.
Theorem C11_cadr : forall a b c, lib_call [99;97;100;114] [VPair a (VPair b c)] b.
Proof. exact cadr_spec. Qed.
Theorem C11_cdar : forall a b c, lib_call [99;100;97;114] [VPair (VPair a b) c] b.
Proof. exact cdar_spec. Qed.
Theorem C11_cddr : forall a b c, lib_call [99;100;100;114] [VPair a (VPair b c)] c.
Proof. exact cddr_spec. Qed.
Theorem C11_caaar : forall a b c d, lib_call [99;97;97;97;114] [VPair (VPair (VPair a b) c) d] a.
Proof. exact caaar_spec. Qed.
Theorem C11_caadr : forall a b c d, lib_call [99;97;97;100;114] [VPair a (VPair (VPair b c) d)] b.
Proof. exact caadr_spec. Qed.
Theorem C11_cadar : forall a b c d, lib_call [99;97;100;97;114] [VPair (VPair a (VPair b c)) d] b.
Proof. exact cadar_spec. Qed.
Theorem C11_caddr : forall a b c d, lib_call [99;97;100;100;114] [VPair a (VPair b (VPair c d))] c.
Proof. exact caddr_spec. Qed.
Theorem C11_cdaar : forall a b c d, lib_call [99;100;97;97;114] [VPair (VPair (VPair a b) c) d] b.
Proof. exact cdaar_spec. Qed.
Theorem C11_cdadr : forall a b c d, lib_call [99;100;97;100;114] [VPair a (VPair (VPair b c) d)] c.
Proof. exact cdadr_spec. Qed.
Theorem C11_cddar : forall a b c d, lib_call [99;100;100;97;114] [VPair (VPair a (VPair b c)) d] c.
Proof. exact cddar_spec. Qed.
Theorem C11_cdddr : forall a b c d, lib_call [99;100;100;100;114] [VPair a (VPair b (VPair c d))] d.
Proof. exact cdddr_spec. Qed.

(** (list a ...) is the list of its arguments; (make-list k x) has k elements x *)
Theorem C11_list : forall args, lib_call [108;105;115;116] args (vlist args).
Proof. exact list_spec. Qed.
Theorem C11_make_list : forall k fill, Z.of_nat k <= i32_max ->
  lib_call n_make_list [vint (Z.of_nat k); fill] (vlist (repeat fill k)).
Proof. exact make_list_spec. Qed.

(** predicates *)
Theorem C11_null : forall x, lib_call [110;117;108;108;63] [x] (VBool (is_nil x)).
Proof. exact null_spec. Qed.
Theorem C11_list_p : forall x, lib_call n_listp [x] (VBool (is_proper x)).
Proof. exact listp_spec. Qed.
Theorem C11_atom_p : forall x, lib_call n_atomp [x] (VBool (negb (is_pair x) && negb (is_nil x))).
Proof. exact atomp_spec. Qed.

(** (append l1 ... ln t): the elements in order, the last argument shared as the tail whatever it is *)
Theorem C11_append : forall ls t, lib_call n_append (map vlist ls ++ [t]) (vapp_tail (concat ls) t).
Proof. exact append_spec. Qed.
Theorem C11_append_no_argument : lib_call n_append [] VNil.
Proof. exact append_none. Qed.

(** (list-tail x k), (list-ref x k) for every k within the chain of pairs; (last-pair x) *)
Theorem C11_list_tail : forall k x y, vtail k x = Some y -> Z.of_nat k <= i32_max ->
  lib_call n_list_tail [x; vint (Z.of_nat k)] y.
Proof. exact list_tail_spec. Qed.
Theorem C11_list_ref : forall k x y z, vtail k x = Some (VPair y z) -> Z.of_nat k <= i32_max ->
  lib_call n_list_ref [x; vint (Z.of_nat k)] y.
Proof. exact list_ref_spec. Qed.
Theorem C11_last_pair : forall a b, lib_call n_last_pair [VPair a b] (vlast a b).
Proof. exact last_pair_spec. Qed.

(** membership and equality *)
Theorem C11_memv : forall obj l, lib_call n_memv [obj; vlist l] (vmem obj l).
Proof. exact memv_spec. Qed.
Theorem C11_memq : forall obj l, lib_call n_memq [obj; vlist l] (vmem obj l).
Proof. exact memq_spec. Qed.
Theorem C11_equal : forall x y, lib_call n_equalp [x; y] (VBool (vequal x y)).
Proof. exact equalp_spec. Qed.

(** the higher-order procedures on a procedure argument that computes a function *)
Theorem C11_map : forall p f l, pure_fun1 p f -> lib_call n_map [p; vlist l] (vlist (map f l)).
Proof. exact map_spec. Qed.
Theorem C11_for_each : forall p f l, pure_fun1 p f -> lib_call n_for_each [p; vlist l] VVoid.
Proof. exact for_each_spec. Qed.
Theorem C11_fold_left : forall p g l init, pure_fun2 p g ->
  lib_call n_fold_left [p; init; vlist l] (fold_left (fun acc x => g x acc) l init).
Proof. exact fold_left_spec. Qed.
Theorem C11_fold_right : forall p g l init, pure_fun2 p g ->
  lib_call n_fold_right [p; init; vlist l] (fold_right g init l).
Proof. exact fold_right_spec. Qed.

(** * the tie to the running interpreter *)

(** after start-up the state holds the library, and the global names are bound to its closures *)
Theorem C11_library_after_start_up :
  (exists i st, boot = Some (i, st)) /\ has_library boot_state base_frame /\
  Forall (fun name => exists c, code_of name = Some c /\
            env_get boot_state boot_root (s name) = Some (closure c base_frame)) exported_list_procs.
Proof. exact (conj boot_succeeds (conj boot_has_library boot_binds_library)). Qed.

(** and there the evaluator of the model returns what [lib_call] states *)
Theorem C11_lib_call_runs : forall name args y, lib_call name args y ->
  forall st lf, has_library st lf ->
  exists c st', code_of name = Some c /\ keeps st st' /\
    (forall env, exists n, forall fuel, (n <= fuel)%nat -> apply_proc fuel (closure c lf) args env st = (Ok y, st')) /\
    (forall fuel env r st1, apply_proc fuel (closure c lf) args env st = (r, st1) -> r <> OutOfFuel ->
       r = Ok y /\ st1 = st').
Proof. exact lib_call_runs. Qed.
