(** C18  A REPL session equals evaluating its forms in sequence.
    Property theorems only, about Model/Repl.v ([bscan_from] is the scan of check_bracket_closed,
    [repl_line] one iteration of the loop on an input line, [submit] the evaluation of a complete
    submission on the session's interpreter, [one_submission before g last]: the lines g ++ [last]
    are non-empty, the bracket test fails after every proper prefix and holds at the end). *)
From Coq Require Import ZArith NArith List Bool.
From RV Require Import Model.Common Model.Lexer Model.Interp Model.Repl Proofs.ReplProofs.
Import ListNotations.

(** the bracket test does not depend on how the text was cut into pieces *)
Theorem C18_scan_compositional : forall a b sc, bscan_from sc (a ++ b) = bscan_from (bscan_from sc a) b.
Proof. exact bscan_from_app. Qed.

(** parentheses inside strings, character literals, |identifiers| and comments do not count *)
Theorem C18_string_literal_skipped : forall body n, forallb plain_str_char body = true ->
  bscan_from (BCode, n) (c_dquote :: body ++ [c_dquote]) = (BCode, n).
Proof. exact bscan_string_literal. Qed.
Theorem C18_string_escape_skipped : forall c n, bscan_from (BStr, n) [c_backslash; c] = (BStr, n).
Proof. exact bscan_string_escape. Qed.
Theorem C18_character_literal_skipped : forall c n, bscan_from (BCode, n) [c_hash; c_backslash; c] = (BCode, n).
Proof. exact bscan_character_literal. Qed.
Theorem C18_quoted_identifier_skipped : forall body n, forallb (fun c => negb (N.eqb c c_bar)) body = true ->
  bscan_from (BCode, n) (c_bar :: body ++ [c_bar]) = (BCode, n).
Proof. exact bscan_quoted_identifier. Qed.
Theorem C18_comment_skipped : forall body n, forallb not_eol body = true ->
  bscan_from (BCode, n) (c_semi :: body ++ [c_nl]) = (BCode, n).
Proof. exact bscan_comment. Qed.

(** not before: while a list is open the line is only appended (with a newline); as soon as
    every list is closed exactly the accumulated text is evaluated and the buffer cleared *)
Theorem C18_pending_until_closed : forall fs cwd efuel rs line, line <> [] ->
  check_bracket_closed (r_pending rs ++ line) = false ->
  repl_line fs cwd efuel rs line =
  {| r_pending := (r_pending rs ++ line) ++ [10%N]; r_ctx := r_ctx rs; r_out := r_out rs; r_errors := r_errors rs |}.
Proof. exact repl_line_pending. Qed.
Theorem C18_submitted_when_closed : forall fs cwd efuel rs line, line <> [] ->
  check_bracket_closed (r_pending rs ++ line) = true ->
  repl_line fs cwd efuel rs line = submit fs cwd efuel rs (r_pending rs ++ line).
Proof. exact repl_line_submit. Qed.

(** a submission spread over several lines is evaluated once, as the lines joined by newlines *)
Theorem C18_one_submission : forall fs cwd efuel g last rs,
  one_submission (r_pending rs) g last ->
  fold_left (repl_line fs cwd efuel) (g ++ [last]) rs =
  submit fs cwd efuel rs (r_pending rs ++ pending_of g ++ last).
Proof. exact one_submission_runs. Qed.

(** the session is the sequence of its submissions evaluated one after another on one
    interpreter (definitions persist: the interpreter context is threaded) *)
Theorem C18_session_is_sequence : forall fs cwd efuel subs rs, r_pending rs = [] ->
  Forall (fun s => one_submission [] (fst s) (snd s)) subs ->
  fold_left (repl_line fs cwd efuel) (session_lines subs) rs =
  fold_left (fun rs s => submit fs cwd efuel rs (pending_of (fst s) ++ snd s)) subs rs.
Proof. exact session_is_sequence. Qed.
