From Coq Require Import ZArith QArith Lia Bool.
Open Scope Z_scope.
(* Spike for C09/C10: the pinned `floor` (values.rs:256-269) refuted by a witness, the Euclidean
   repair proved for all operands, and the sign hypothesis the comparison proof forces. *)

(* Rust `/` on i32 truncates: Z.quot.  Pinned code, transcribed: *)
Definition floor_pinned (a b : Z) : Z :=
  let quot := Z.quot a b in
  if (quot >=? 0) || (quot * b =? a) then quot else quot - 1.

(* what the property demands: the greatest integer not above a/b *)
Definition is_floor (a b q : Z) : Prop :=
  (0 < b -> q * b <= a < (q + 1) * b) /\ (b < 0 -> (q + 1) * b < a <= q * b).

Lemma floor_pinned_refuted : exists a b, b <> 0 /\ ~ is_floor a b (floor_pinned a b).
Proof. exists (-1), 2. split; [discriminate|]. assert (E : floor_pinned (-1) 2 = 0) by reflexivity. rewrite E. unfold is_floor. lia. Qed.

(* the pinned definition is right exactly outside (-1,0): the narrow known class *)
Definition floor_known_class (a b : Z) : bool := (Z.quot a b =? 0) && (Z.sgn a * Z.sgn b =? -1).

Lemma floor_pinned_ok a b : b <> 0 -> floor_known_class a b = false -> is_floor a b (floor_pinned a b).
Proof.
  intros Hb HK. unfold floor_known_class in HK. unfold floor_pinned, is_floor.
  pose proof (Z.quot_rem' a b) as QR.
  pose proof (Z.rem_bound_abs a b Hb) as RB.
  assert (RP : 0 <= a -> 0 <= Z.rem a b) by (intros; apply Z.rem_nonneg; assumption).
  assert (RN : a <= 0 -> Z.rem a b <= 0) by (intros; apply Z.rem_nonpos; assumption).
  set (q := Z.quot a b) in *. set (r := Z.rem a b) in *. clearbody q r.
  destruct (Z.geb_spec q 0) as [Q0|Q0]; cbn [orb].
  - 
    destruct (Z.eq_dec q 0) as [Q00|Q00].
    + rewrite Q00 in *. rewrite Z.eqb_refl in HK. cbn [andb] in HK. apply Z.eqb_neq in HK.
      split; intros; nia.
    + split; intros; nia.
  - destruct (q * b =? a) eqn:E.
    + apply Z.eqb_eq in E. split; intros; nia.
    + apply Z.eqb_neq in E. split; intros; nia.
Qed.

(* the repair: Euclidean/floor division on the sign-normalised pair *)
Definition floor_fixed (a b : Z) : Z := if b <? 0 then Z.div (-a) (-b) else Z.div a b.
Lemma floor_fixed_ok a b : b <> 0 -> is_floor a b (floor_fixed a b).
Proof.
  intros Hb. unfold floor_fixed, is_floor. destruct (b <? 0) eqn:S.
  - apply Z.ltb_lt in S. pose proof (Z.div_mod (-a) (-b) ltac:(lia)). pose proof (Z.mod_pos_bound (-a) (-b) ltac:(lia)). split; intros; nia.
  - apply Z.ltb_ge in S. pose proof (Z.div_mod a b Hb). pose proof (Z.mod_pos_bound a b ltac:(lia)). split; intros; nia.
Qed.

(* C10: cross-multiplication is the order of Q only for positive denominators *)
Definition lt_pinned (a1 a2 b1 b2 : Z) : bool := a1 * b2 <? b1 * a2.
Lemma lt_pinned_ok a1 a2 b1 b2 : 0 < a2 -> 0 < b2 ->
  lt_pinned a1 a2 b1 b2 = true <-> (a1 # Z.to_pos a2 < b1 # Z.to_pos b2)%Q.
Proof. intros. unfold lt_pinned, Qlt; simpl. rewrite !Z2Pos.id by assumption. rewrite Z.ltb_lt. lia. Qed.
Lemma lt_pinned_refuted : exists a1 a2 b1 b2, a2 <> 0 /\ b2 <> 0 /\ lt_pinned a1 a2 b1 b2 = false /\ a1 * a2 < 0 /\ b1 = 0.
Proof. exists 1, (-2), 0, 1. repeat split; try discriminate; try reflexivity. Qed.   (* 1/-2 < 0/1 but reported false *)
Print Assumptions floor_pinned_ok. Print Assumptions floor_fixed_ok. Print Assumptions lt_pinned_ok.
