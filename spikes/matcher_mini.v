From Coq Require Import List Arith ZArith Lia String Bool.
Import ListNotations. Local Open Scope list_scope.
(* Spike: faithful model of SyntaxPattern::match_datum / match_datum_stream (macros.rs:70-258),
   proper lists only, and the ellipsis lemma. *)
Inductive datum := DSym (s:string) | DNum (z:Z) | DList (l:list datum).
Inductive pat := PUnderscore | PEllipsis | PList (l:list pat) | PIdent (s:string) | PPrim (z:Z).
Definition subst := list (string * (datum * list datum)).
Fixpoint sinsert (x:string) (v:datum * list datum) (s:subst) : subst :=
  match s with [] => [(x,v)] | (y,w)::r => if String.eqb x y then (y,v)::r else (y,w) :: sinsert x v r end.
Fixpoint sget (x:string) (s:subst) : option (datum * list datum) :=
  match s with [] => None | (y,w)::r => if String.eqb x y then Some w else sget x r end.
Fixpoint spush (x:string) (d:datum) (s:subst) : option subst :=   (* get_mut(x).unwrap().1.push(d) *)
  match s with [] => None | (y,(a,v))::r => if String.eqb x y then Some ((y,(a,v++[d]))::r) else option_map (cons (y,(a,v))) (spush x d r) end.
Fixpoint mem (x:string) (l:list string) := match l with [] => false | y::r => String.eqb x y || mem x r end.
Inductive out (A:Type) := Ok (a:A) | ErrPattern | PanicUnwrap | Fuel.
Arguments Ok {A}. Arguments ErrPattern {A}. Arguments PanicUnwrap {A}. Arguments Fuel {A}.
Definition bind {A B} (o:out A) (k:A -> out B) : out B := match o with Ok a => k a | ErrPattern => ErrPattern | PanicUnwrap => PanicUnwrap | Fuel => Fuel end.
Notation "x <- a ;; b" := (bind a (fun x => b)) (at level 61, a at next level, right associativity).
Fixpoint push_all (fresh:subst) (s:subst) : out subst :=
  match fresh with [] => Ok s | (x,(d,_))::r => match spush x d s with Some s' => push_all r s' | None => PanicUnwrap end end.

Fixpoint match_datum (fuel:nat) (p:pat) (d:datum) (lits:list string) (s:subst) {struct fuel} : out (bool*subst) :=
  match fuel with 0 => Fuel | S f =>
  match p, d with
  | PUnderscore, _ => Ok (true,s)
  | PEllipsis, _ => Ok (true,s)
  | PList ps, DList ds => mds f 0 0 ps ds lits s None
  | PIdent x, _ => if negb (mem x lits) then Ok (true, sinsert x (d,[]) s)
                   else Ok (match d with DSym y => String.eqb y x | _ => false end, s)
  | PPrim _, DNum _ => Ok (true,s)          (* the literal-datum defect, faithfully *)
  | _, _ => Ok (false,s) end end
with mds (fuel:nat) (pi di:nat) (ps:list pat) (ds:list datum) (lits:list string) (s:subst) (multi:option pat) {struct fuel} : out (bool*subst) :=
  match fuel with 0 => Fuel | S f =>
  match nth_error ps pi, nth_error ds di with
  | None, None => Ok (true,s)
  | Some PEllipsis, None => match multi with Some _ => mds f (S pi) (S di) ps ds lits s multi | None => Ok (false,s) end
  | Some sp, Some sd =>
      r <- match_datum f sp sd lits s ;;
      if negb (fst r) then Ok (false, snd r) else
      let s1 := snd r in
      match sp with
      | PEllipsis =>
          match multi with
          | None => ErrPattern
          | Some mp =>
              r2 <- match_datum f mp sd lits [] ;;
              s2 <- (if fst r2 then push_all (snd r2) s1 else Ok s1) ;;
              r3 <- mds f pi (S di) ps ds lits s2 (Some mp) ;;
              if fst r3 then Ok (true, snd r3) else mds f (S pi) (S di) ps ds lits (snd r3) (Some mp)
          end
      | PIdent x => if mem x lits then mds f (S pi) (S di) ps ds lits s1 None else mds f (S pi) (S di) ps ds lits s1 (Some sp)
      | _ => mds f (S pi) (S di) ps ds lits s1 (Some sp)
      end
  | _, _ => Ok (false,s) end end.

(* sanity: (a ...) against (1 2 3) *)
Eval vm_compute in match_datum 50 (PList [PIdent "a"; PEllipsis]) (DList [DNum 1; DNum 2; DNum 3]) [] [].
Eval vm_compute in match_datum 50 (PList [PIdent "a"; PEllipsis]) (DList []) [] [].
Eval vm_compute in match_datum 50 (PList [PIdent "a"; PIdent "b"; PEllipsis; PIdent "c"]) (DList [DNum 1; DNum 2; DNum 3; DNum 4]) [] [].

(* ---- the ellipsis lemma: a final `x ...` consumes the whole remaining run, in order ---- *)
Fixpoint supd (x:string) (v:datum * list datum) (s:subst) : subst :=
  match s with [] => [] | (y,w)::r => if String.eqb x y then (y,v)::r else (y,w) :: supd x v r end.

Lemma spush_supd x d s d0 acc : sget x s = Some (d0,acc) -> spush x d s = Some (supd x (d0, acc ++ [d]) s).
Proof.
  induction s as [|[y [a v]] r IH]; simpl; [discriminate|].
  destruct (String.eqb x y) eqn:E; intros H.
  - inversion H; subst. reflexivity.
  - rewrite (IH H). reflexivity.
Qed.
Lemma sget_supd x v s w : sget x s = Some w -> sget x (supd x v s) = Some v.
Proof.
  induction s as [|[y u] r IH]; simpl; [discriminate|].
  destruct (String.eqb x y) eqn:E; intros H; simpl; rewrite E; auto.
Qed.
Lemma supd_supd x v v' s : supd x v' (supd x v s) = supd x v' s.
Proof.
  induction s as [|[y u] r IH]; simpl; [reflexivity|].
  destruct (String.eqb x y) eqn:E; simpl; rewrite E; [reflexivity| rewrite IH; reflexivity].
Qed.
Lemma supd_same x s w : sget x s = Some w -> supd x w s = s.
Proof.
  induction s as [|[y u] r IH]; simpl; [reflexivity|].
  destruct (String.eqb x y) eqn:E; intros H; [inversion H; subst; reflexivity | rewrite (IH H); reflexivity].
Qed.
Lemma skipn_cons_nth {A} (l:list A) n a r : skipn n l = a :: r -> nth_error l n = Some a /\ skipn (S n) l = r.
Proof.
  revert l; induction n as [|n IH]; intros l H; destruct l as [|b l]; simpl in *; try discriminate.
  - inversion H; subst; split; [reflexivity| destruct r; reflexivity].
  - apply IH in H. exact H.
Qed.
Lemma skipn_nil_nth {A} (l:list A) n : skipn n l = [] -> nth_error l n = None.
Proof.
  revert l; induction n as [|n IH]; intros l H; destruct l as [|b l]; simpl in *; try discriminate; auto.
Qed.

Lemma mds_S f pi di ps ds lits s multi : mds (S f) pi di ps ds lits s multi =
  match nth_error ps pi, nth_error ds di with
  | None, None => Ok (true,s)
  | Some PEllipsis, None => match multi with Some _ => mds f (S pi) (S di) ps ds lits s multi | None => Ok (false,s) end
  | Some sp, Some sd =>
      r <- match_datum f sp sd lits s ;;
      if negb (fst r) then Ok (false, snd r) else
      let s1 := snd r in
      match sp with
      | PEllipsis =>
          match multi with
          | None => ErrPattern
          | Some mp =>
              r2 <- match_datum f mp sd lits [] ;;
              s2 <- (if fst r2 then push_all (snd r2) s1 else Ok s1) ;;
              r3 <- mds f pi (S di) ps ds lits s2 (Some mp) ;;
              if fst r3 then Ok (true, snd r3) else mds f (S pi) (S di) ps ds lits (snd r3) (Some mp)
          end
      | PIdent x => if mem x lits then mds f (S pi) (S di) ps ds lits s1 None else mds f (S pi) (S di) ps ds lits s1 (Some sp)
      | _ => mds f (S pi) (S di) ps ds lits s1 (Some sp)
      end
  | _, _ => Ok (false,s) end.
Proof. reflexivity. Qed.

Lemma match_ident f x d lits s : mem x lits = false -> match_datum (S f) (PIdent x) d lits s = Ok (true, sinsert x (d,[]) s).
Proof. intros H. simpl. rewrite H. reflexivity. Qed.
Lemma match_ellipsis f d lits s : match_datum (S f) PEllipsis d lits s = Ok (true, s).
Proof. reflexivity. Qed.

Lemma mds_ellipsis_tail x lits : mem x lits = false ->
  forall rest f pi di ps dsall s d0 acc,
  nth_error ps pi = Some PEllipsis -> nth_error ps (S pi) = None ->
  skipn di dsall = rest -> sget x s = Some (d0, acc) ->
  2 * List.length rest + 3 <= f ->
  mds f pi di ps dsall lits s (Some (PIdent x)) = Ok (true, supd x (d0, acc ++ rest) s).
Proof.
  intros NL rest; induction rest as [|d rest IH]; intros f pi di ps dsall s d0 acc HP HN HS HG HF.
  - (* no more data: (Some Ellipsis, None) then (None, None) *)
    destruct f as [|[|f]]; simpl in HF; try lia.
    rewrite mds_S. rewrite HP. rewrite (skipn_nil_nth _ _ HS). rewrite mds_S. rewrite HN.
    assert (nth_error dsall (S di) = None) as ->.
    { apply nth_error_None. pose proof (skipn_nil_nth _ _ HS) as H0. apply nth_error_None in H0. lia. }
    rewrite app_nil_r. rewrite (supd_same _ _ _ HG). reflexivity.
  - destruct (skipn_cons_nth _ _ _ _ HS) as [HD HS'].
    destruct f as [|[|f]]; simpl in HF; try lia.
    rewrite mds_S. rewrite HP, HD. rewrite match_ellipsis. cbn [bind fst snd negb].
    rewrite (match_ident _ _ _ _ _ NL). cbn [bind fst snd sinsert push_all].
    rewrite (spush_supd _ _ _ _ _ HG). cbn [bind].
    rewrite (IH (S f) pi (S di) ps dsall _ d0 (acc ++ [d]) HP HN HS' (sget_supd _ _ _ _ HG)) by lia.
    cbn [bind fst snd]. rewrite supd_supd. rewrite <- app_assoc. reflexivity.
Qed.
Print Assumptions mds_ellipsis_tail.
