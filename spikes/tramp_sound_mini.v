From Coq Require Import List Arith ZArith Lia String.
Import ListNotations. Local Open Scope list_scope.
Inductive expr :=
| EVar (x:string) | EInt (z:Z) | ELam (ps:list string) (body:list expr)
| EApp (f:expr) (args:list expr) | EIf (c t e:expr).
Inductive value := VInt (z:Z) | VBool (b:bool) | VClo (ps:list string) (body:list expr) (env:nat) | VPrim (name:string) | VVoid.
Record frame := { parent : option nat; defs : list (string * value) }.
Definition store := list frame.
Inductive err := EUnbound | ENotProc | EArity | EType.
Inductive out (A:Type) := Ok (a:A) | Err (e:err) (s:store) | Timeout.
Arguments Ok {A}. Arguments Err {A}. Arguments Timeout {A}.
Definition bind {A B} (o:out A) (k:A -> out B) : out B := match o with Ok a => k a | Err e s => Err e s | Timeout => Timeout end.
Notation "x <- a ;; b" := (bind a (fun x => b)) (at level 61, a at next level, right associativity).
Fixpoint lookup_defs (x:string) (d:list (string*value)) := match d with [] => None | (y,v)::r => if String.eqb x y then Some v else lookup_defs x r end.
Fixpoint lookup (fuel:nat) (s:store) (env:nat) (x:string) : option value :=
  match fuel with 0 => None | S f =>
  match nth_error s env with None => None | Some fr =>
    match lookup_defs x (defs fr) with Some v => Some v | None => match parent fr with Some p => lookup f s p x | None => None end end end end.
Definition alloc (s:store) (fr:frame) : store * nat := (s ++ [fr], List.length s).
Definition prim (name:string) (args:list value) : option value :=
  match args with [VInt a; VInt b] => if String.eqb name "+" then Some (VInt (a+b)) else if String.eqb name "<" then Some (VBool (Z.ltb a b)) else None | _ => None end.
Definition truthy v := match v with VBool false => false | _ => true end.
Definition ev_t := expr -> nat -> store -> out (value*store).
Fixpoint evlist (ev:ev_t) (l:list expr) (env:nat) (s:store) : out (list value*store) :=
  match l with [] => Ok ([],s) | a::r => p <- ev a env s ;; q <- evlist ev r env (snd p) ;; Ok (fst p :: fst q, snd q) end.
Definition atom (e:expr) env s : out (value*store) :=
  match e with
  | EVar x => match lookup (S (List.length s)) s env x with Some v => Ok (v,s) | None => Err EUnbound s end
  | EInt z => Ok (VInt z, s) | ELam ps b => Ok (VClo ps b env, s) | _ => Ok (VVoid,s) end.

(* direct *)
Fixpoint dseq (ev:ev_t) (l:list expr) (a:nat) (s:store) : out (value*store) :=
  match l with [] => Ok (VVoid,s) | [e] => ev e a s | e::r => p <- ev e a s ;; dseq ev r a (snd p) end.
Fixpoint deval (fuel:nat) (e:expr) (env:nat) (s:store) {struct fuel} : out (value*store) :=
  match fuel with 0 => Timeout | S f =>
  match e with
  | EIf c t e' => p <- deval f c env s ;; if truthy (fst p) then deval f t env (snd p) else deval f e' env (snd p)
  | EApp fe args => p <- deval f fe env s ;; q <- evlist (deval f) args env (snd p) ;; dapply f (fst p) (fst q) (snd q)
  | _ => atom e env s end end
with dapply (fuel:nat) (fv:value) (vs:list value) (s:store) {struct fuel} : out (value*store) :=
  match fuel with 0 => Timeout | S f =>
  match fv with
  | VPrim n => match prim n vs with Some v => Ok (v,s) | None => Err EType s end
  | VClo ps body cenv =>
     if negb (Nat.eqb (List.length ps) (List.length vs)) then Err EArity s else
     dseq (deval f) body (snd (alloc s {| parent := Some cenv; defs := combine ps vs |})) (fst (alloc s {| parent := Some cenv; defs := combine ps vs |}))
  | _ => Err ENotProc s end end.

(* trampolined *)
Inductive tres := TValue (v:value) | TCall (f:expr) (args:list expr) (env:nat).
Definition evt_t := expr -> nat -> store -> out (tres*store).
Fixpoint tseq (ev:ev_t) (evt:evt_t) (l:list expr) (a:nat) (s:store) : out (tres*store) :=
  match l with [] => Ok (TValue VVoid,s) | [e] => evt e a s | e::r => p <- ev e a s ;; tseq ev evt r a (snd p) end.
Fixpoint teval (fuel:nat) (e:expr) (env:nat) (s:store) {struct fuel} : out (value*store) :=
  match fuel with 0 => Timeout | S f =>
  match e with
  | EIf c t e' => p <- teval f c env s ;; if truthy (fst p) then teval f t env (snd p) else teval f e' env (snd p)
  | EApp fe args => p <- teval f fe env s ;; q <- evlist (teval f) args env (snd p) ;; tapply f (fst p) (fst q) (snd q)
  | _ => atom e env s end end
with teval_tail (fuel:nat) (e:expr) (env:nat) (s:store) {struct fuel} : out (tres*store) :=
  match fuel with 0 => Timeout | S f =>
  match e with
  | EApp fe args => Ok (TCall fe args env, s)
  | EIf c t e' => p <- teval f c env s ;; if truthy (fst p) then teval_tail f t env (snd p) else teval_tail f e' env (snd p)
  | _ => p <- teval f e env s ;; Ok (TValue (fst p), snd p)
  end end
with tapply (fuel:nat) (fv:value) (vs:list value) (s:store) {struct fuel} : out (value*store) :=
  match fuel with 0 => Timeout | S f =>
  match fv with
  | VPrim n => match prim n vs with Some v => Ok (v,s) | None => Err EType s end
  | VClo ps body cenv =>
     if negb (Nat.eqb (List.length ps) (List.length vs)) then Err EArity s else
     r <- tseq (teval f) (teval_tail f) body (snd (alloc s {| parent := Some cenv; defs := combine ps vs |})) (fst (alloc s {| parent := Some cenv; defs := combine ps vs |})) ;;
     match fst r with
     | TValue v => Ok (v, snd r)
     | TCall fe args env' => p <- teval f fe env' (snd r) ;; q <- evlist (teval f) args env' (snd p) ;; tapply f (fst p) (fst q) (snd q)
     end
  | _ => Err ENotProc s end end.

Definition noT {A} (r:out A) := r <> Timeout.
Definition le_ev {A} (ev1 ev2: expr -> nat -> store -> out A) := forall e env s r, ev1 e env s = r -> noT r -> ev2 e env s = r.

Lemma bind_noT {A B} (o:out A) (k:A->out B) r : bind o k = r -> noT r -> (exists a, o = Ok a /\ k a = r) \/ (exists e s, o = Err e s /\ r = Err e s).
Proof. destruct o; simpl; intros H N; subst; eauto. exfalso; apply N; reflexivity. Qed.

Ltac inv_bind H N :=
  let a := fresh "a" in let Ha := fresh "Ha" in let Hk := fresh "Hk" in let e := fresh "e" in let s := fresh "s" in
  destruct (bind_noT _ _ _ H N) as [[a [Ha Hk]] | [e [s [Ha Hk]]]].

Lemma evlist_mono ev1 ev2 : le_ev ev1 ev2 -> forall l env s r, evlist ev1 l env s = r -> noT r -> evlist ev2 l env s = r.
Proof.
  intros L l; induction l as [|a l IH]; simpl; intros env s r H N; [exact H|].
  inv_bind H N.
  - rewrite (L _ _ _ _ Ha) by discriminate. simpl. inv_bind Hk N.
    + rewrite (IH _ _ _ Ha0) by discriminate. simpl. exact Hk0.
    + rewrite (IH _ _ _ Ha0) by discriminate. simpl. congruence.
  - rewrite (L _ _ _ _ Ha) by discriminate. simpl. congruence.
Qed.

Lemma dseq_mono ev1 ev2 : le_ev ev1 ev2 -> forall l a s r, dseq ev1 l a s = r -> noT r -> dseq ev2 l a s = r.
Proof.
  intros L l; induction l as [|e l IH]; simpl; intros a s r H N; [exact H|].
  destruct l as [|e2 l]; [apply L; assumption|].
  inv_bind H N.
  - rewrite (L _ _ _ _ Ha) by discriminate. simpl. apply IH; assumption.
  - rewrite (L _ _ _ _ Ha) by discriminate. simpl. congruence.
Qed.


Lemma deval_S f e env s : deval (S f) e env s =
  match e with
  | EIf c t e' => p <- deval f c env s ;; if truthy (fst p) then deval f t env (snd p) else deval f e' env (snd p)
  | EApp fe args => p <- deval f fe env s ;; q <- evlist (deval f) args env (snd p) ;; dapply f (fst p) (fst q) (snd q)
  | _ => atom e env s end.
Proof. reflexivity. Qed.
Lemma dapply_S f fv vs s : dapply (S f) fv vs s =
  match fv with
  | VPrim n => match prim n vs with Some v => Ok (v,s) | None => Err EType s end
  | VClo ps body cenv =>
     if negb (Nat.eqb (List.length ps) (List.length vs)) then Err EArity s else
     dseq (deval f) body (snd (alloc s {| parent := Some cenv; defs := combine ps vs |})) (fst (alloc s {| parent := Some cenv; defs := combine ps vs |}))
  | _ => Err ENotProc s end.
Proof. reflexivity. Qed.

Lemma dmono : forall f, (le_ev (deval f) (deval (S f))) /\ (forall fv vs s r, dapply f fv vs s = r -> noT r -> dapply (S f) fv vs s = r).
Proof.
  induction f as [|f [IHe IHa]].
  - split; [intros e env s r H N | intros fv vs s r H N]; simpl in H; subst; exfalso; apply N; reflexivity.
  - split.
    + intros e env s r H N. rewrite deval_S in H. rewrite (deval_S (S f)). destruct e; try exact H.
      * inv_bind H N.
        -- rewrite (IHe _ _ _ _ Ha) by discriminate. cbn [bind]. inv_bind Hk N.
           ++ rewrite (evlist_mono _ _ IHe _ _ _ _ Ha0) by discriminate. cbn [bind]. apply IHa; assumption.
           ++ rewrite (evlist_mono _ _ IHe _ _ _ _ Ha0) by discriminate. cbn [bind]. congruence.
        -- rewrite (IHe _ _ _ _ Ha) by discriminate. cbn [bind]. congruence.
      * inv_bind H N.
        -- rewrite (IHe _ _ _ _ Ha) by discriminate. cbn [bind]. destruct (truthy (fst a)); apply IHe; assumption.
        -- rewrite (IHe _ _ _ _ Ha) by discriminate. cbn [bind]. congruence.
    + intros fv vs s r H N. rewrite dapply_S in H. rewrite (dapply_S (S f)). destruct fv; try exact H.
      destruct (negb _); [exact H|]. eapply dseq_mono; eauto.
Qed.

Lemma dmono_le : forall f f', f <= f' -> le_ev (deval f) (deval f') /\ (forall fv vs s r, dapply f fv vs s = r -> noT r -> dapply f' fv vs s = r).
Proof.
  intros f f' L; induction L as [|f' L [IHe IHa]].
  - split; [intros e env s r H N; exact H | intros fv vs s r H N; exact H].
  - destruct (dmono f') as [Me Ma]. split.
    + intros e env s r H N. apply Me; [apply IHe; assumption | assumption].
    + intros fv vs s r H N. apply Ma; [apply IHa; assumption | assumption].
Qed.

Definition ex_ev (ev1:ev_t) := forall e env s r, ev1 e env s = r -> noT r -> exists f', deval f' e env s = r.

Lemma deval_up f f' e env s r : deval f e env s = r -> noT r -> f <= f' -> deval f' e env s = r.
Proof. intros H N L. destruct (dmono_le f f' L) as [M _]. apply M; assumption. Qed.
Lemma dapply_up f f' fv vs s r : dapply f fv vs s = r -> noT r -> f <= f' -> dapply f' fv vs s = r.
Proof. intros H N L. destruct (dmono_le f f' L) as [_ M]. apply M; assumption. Qed.
Lemma evlist_up f f' l env s r : evlist (deval f) l env s = r -> noT r -> f <= f' -> evlist (deval f') l env s = r.
Proof. intros H N L. eapply evlist_mono; eauto. apply (dmono_le f f' L). Qed.
Lemma dseq_up f f' l a s r : dseq (deval f) l a s = r -> noT r -> f <= f' -> dseq (deval f') l a s = r.
Proof. intros H N L. eapply dseq_mono; eauto. apply (dmono_le f f' L). Qed.

Lemma evlist_ex ev1 : ex_ev ev1 -> forall l env s r, evlist ev1 l env s = r -> noT r -> exists f', evlist (deval f') l env s = r.
Proof.
  intros X l; induction l as [|a l IH]; simpl; intros env s r H N; [exists 0; exact H|].
  inv_bind H N.
  - destruct (X _ _ _ _ Ha) as [f1 H1]; [discriminate|]. inv_bind Hk N.
    + destruct (IH _ _ _ Ha0) as [f2 H2]; [discriminate|]. exists (Nat.max f1 f2).
      rewrite (deval_up f1 _ _ _ _ _ H1) by (try discriminate; lia). simpl.
      rewrite (evlist_up f2 _ _ _ _ _ H2) by (try discriminate; lia). simpl. exact Hk0.
    + destruct (IH _ _ _ Ha0) as [f2 H2]; [discriminate|]. exists (Nat.max f1 f2).
      rewrite (deval_up f1 _ _ _ _ _ H1) by (try discriminate; lia). simpl.
      rewrite (evlist_up f2 _ _ _ _ _ H2) by (try discriminate; lia). simpl. congruence.
  - destruct (X _ _ _ _ Ha) as [f1 H1]; [discriminate|]. exists f1. rewrite H1. simpl. congruence.
Qed.

Definition tail_ok (e:expr) (env:nat) (s:store) (r:out (tres*store)) : Prop :=
  match r with
  | Ok (TValue v, s') => exists f', deval f' e env s = Ok (v,s')
  | Ok (TCall fe args env', s') => env' = env /\ forall f1 r1, deval f1 (EApp fe args) env s' = r1 -> noT r1 -> exists f', deval f' e env s = r1
  | Err k s' => exists f', deval f' e env s = Err k s'
  | Timeout => False end.

Lemma teval_S f e env s : teval (S f) e env s =
  match e with
  | EIf c t e' => p <- teval f c env s ;; if truthy (fst p) then teval f t env (snd p) else teval f e' env (snd p)
  | EApp fe args => p <- teval f fe env s ;; q <- evlist (teval f) args env (snd p) ;; tapply f (fst p) (fst q) (snd q)
  | _ => atom e env s end.
Proof. reflexivity. Qed.
Lemma teval_tail_S f e env s : teval_tail (S f) e env s =
  match e with
  | EApp fe args => Ok (TCall fe args env, s)
  | EIf c t e' => p <- teval f c env s ;; if truthy (fst p) then teval_tail f t env (snd p) else teval_tail f e' env (snd p)
  | _ => p <- teval f e env s ;; Ok (TValue (fst p), snd p) end.
Proof. reflexivity. Qed.
Lemma tapply_S f fv vs s : tapply (S f) fv vs s =
  match fv with
  | VPrim n => match prim n vs with Some v => Ok (v,s) | None => Err EType s end
  | VClo ps body cenv =>
     if negb (Nat.eqb (List.length ps) (List.length vs)) then Err EArity s else
     r <- tseq (teval f) (teval_tail f) body (snd (alloc s {| parent := Some cenv; defs := combine ps vs |})) (fst (alloc s {| parent := Some cenv; defs := combine ps vs |})) ;;
     match fst r with
     | TValue v => Ok (v, snd r)
     | TCall fe args env' => p <- teval f fe env' (snd r) ;; q <- evlist (teval f) args env' (snd p) ;; tapply f (fst p) (fst q) (snd q)
     end
  | _ => Err ENotProc s end.
Proof. reflexivity. Qed.

(* sequencing: a trampolined body sequence relates to the direct one *)
Definition seq_ok (l:list expr) (a:nat) (s:store) (r:out (tres*store)) : Prop :=
  match r with
  | Ok (TValue v, s') => exists f', dseq (deval f') l a s = Ok (v,s')
  | Ok (TCall fe args env', s') => env' = a /\ forall f1 r1, deval f1 (EApp fe args) a s' = r1 -> noT r1 -> exists f', dseq (deval f') l a s = r1
  | Err k s' => exists f', dseq (deval f') l a s = Err k s'
  | Timeout => False end.

Lemma tseq_ok ev evt : ex_ev ev -> (forall e env s r, evt e env s = r -> noT r -> tail_ok e env s r) ->
  forall l a s r, l <> [] -> tseq ev evt l a s = r -> noT r -> seq_ok l a s r.
Proof.
  intros X XT l; induction l as [|e l IH]; intros a s r NE H N; [congruence|].
  destruct l as [|e2 l].
  - simpl in H. pose proof (XT _ _ _ _ H N) as T. unfold tail_ok in T. unfold seq_ok. simpl.
    destruct r as [[[v|fe args env'] s']|k s'|]; auto.
  - change (tseq ev evt (e :: e2 :: l) a s) with (p <- ev e a s ;; tseq ev evt (e2::l) a (snd p)) in H.
    inv_bind H N.
    + destruct (X _ _ _ _ Ha) as [f1 H1]; [discriminate|].
      assert (NE2 : e2 :: l <> []) by discriminate.
      pose proof (IH _ _ _ NE2 Hk N) as S2. unfold seq_ok in *.
      destruct r as [[[v|fe args env'] s']|k s'|]; auto.
      * destruct S2 as [f2 H2]. exists (Nat.max f1 f2).
        change (dseq (deval (Nat.max f1 f2)) (e :: e2 :: l) a s) with (p <- deval (Nat.max f1 f2) e a s ;; dseq (deval (Nat.max f1 f2)) (e2::l) a (snd p)).
        rewrite (deval_up f1 _ _ _ _ _ H1) by (try discriminate; lia). cbn [bind].
        apply (dseq_up f2); [assumption|discriminate|lia].
      * destruct S2 as [E2 K2]. split; [assumption|]. intros f3 r1 H3 N3. destruct (K2 _ _ H3 N3) as [f2 H2].
        exists (Nat.max f1 f2).
        change (dseq (deval (Nat.max f1 f2)) (e :: e2 :: l) a s) with (p <- deval (Nat.max f1 f2) e a s ;; dseq (deval (Nat.max f1 f2)) (e2::l) a (snd p)).
        rewrite (deval_up f1 _ _ _ _ _ H1) by (try discriminate; lia). cbn [bind].
        apply (dseq_up f2); [assumption|assumption|lia].
      * destruct S2 as [f2 H2]. exists (Nat.max f1 f2).
        change (dseq (deval (Nat.max f1 f2)) (e :: e2 :: l) a s) with (p <- deval (Nat.max f1 f2) e a s ;; dseq (deval (Nat.max f1 f2)) (e2::l) a (snd p)).
        rewrite (deval_up f1 _ _ _ _ _ H1) by (try discriminate; lia). cbn [bind].
        apply (dseq_up f2); [assumption|discriminate|lia].
    + destruct (X _ _ _ _ Ha) as [f1 H1]; [discriminate|]. rewrite Hk. unfold seq_ok. cbv beta iota. exists f1.
      change (dseq (deval f1) (e :: e2 :: l) a s) with (p <- deval f1 e a s ;; dseq (deval f1) (e2::l) a (snd p)).
      rewrite H1. reflexivity.
Qed.

Lemma atom_not_app e : (forall fe args, e <> EApp fe args) -> (forall c t e', e <> EIf c t e') -> forall f env s, deval (S f) e env s = atom e env s.
Proof. intros A B f env s. rewrite deval_S. destruct e; try reflexivity. exfalso; eapply A; eauto. exfalso; eapply B; eauto. Qed.

Theorem tramp_sound : forall f,
  ex_ev (teval f) /\
  (forall e env s r, teval_tail f e env s = r -> noT r -> tail_ok e env s r) /\
  (forall fv vs s r, tapply f fv vs s = r -> noT r -> exists f', dapply f' fv vs s = r).
Proof.
  induction f as [|f [IHe [IHt IHa]]].
  - repeat split; intros until r; intros H N; simpl in H; subst; exfalso; apply N; reflexivity.
  - assert (HE : ex_ev (teval (S f))).
    { intros e env s r H N. rewrite teval_S in H. destruct e.
      1-3: (exists 1; exact H).
      - (* EApp *) inv_bind H N.
        + destruct (IHe _ _ _ _ Ha) as [f1 H1]; [discriminate|]. inv_bind Hk N.
          * destruct (evlist_ex _ IHe _ _ _ _ Ha0) as [f2 H2]; [discriminate|].
            destruct (IHa _ _ _ _ Hk0 N) as [f3 H3].
            exists (S (Nat.max f1 (Nat.max f2 f3))). rewrite deval_S.
            rewrite (deval_up f1 _ _ _ _ _ H1) by (try discriminate; lia). cbn [bind].
            rewrite (evlist_up f2 _ _ _ _ _ H2) by (try discriminate; lia). cbn [bind].
            apply (dapply_up f3); [assumption|assumption|lia].
          * destruct (evlist_ex _ IHe _ _ _ _ Ha0) as [f2 H2]; [discriminate|].
            exists (S (Nat.max f1 f2)). rewrite deval_S.
            rewrite (deval_up f1 _ _ _ _ _ H1) by (try discriminate; lia). cbn [bind].
            rewrite (evlist_up f2 _ _ _ _ _ H2) by (try discriminate; lia). cbn [bind]. congruence.
        + destruct (IHe _ _ _ _ Ha) as [f1 H1]; [discriminate|]. exists (S f1). rewrite deval_S. rewrite H1. cbn [bind]. congruence.
      - (* EIf *) inv_bind H N.
        + destruct (IHe _ _ _ _ Ha) as [f1 H1]; [discriminate|].
          assert (exists f2, (if truthy (fst a) then deval f2 e2 env (snd a) else deval f2 e3 env (snd a)) = r) as [f2 H2].
          { destruct (truthy (fst a)); destruct (IHe _ _ _ _ Hk N) as [f2 H2]; exists f2; exact H2. }
          exists (S (Nat.max f1 f2)). rewrite deval_S.
          rewrite (deval_up f1 _ _ _ _ _ H1) by (try discriminate; lia). cbn [bind].
          destruct (truthy (fst a)); apply (deval_up f2); try assumption; lia.
        + destruct (IHe _ _ _ _ Ha) as [f1 H1]; [discriminate|]. exists (S f1). rewrite deval_S. rewrite H1. cbn [bind]. congruence. }
    split; [exact HE|]. split.
    + (* tail *)
      intros e env s r H N. rewrite teval_tail_S in H. destruct e.
      1-3: (inv_bind H N;
            [ destruct (IHe _ _ _ _ Ha) as [f1 H1]; [discriminate|]; rewrite <- Hk; unfold tail_ok; cbv beta iota;
              exists f1; rewrite H1; destruct a; reflexivity
            | destruct (IHe _ _ _ _ Ha) as [f1 H1]; [discriminate|]; rewrite Hk; unfold tail_ok; cbv beta iota; exists f1; exact H1 ]).
      * (* EApp *) subst r. unfold tail_ok. split; [reflexivity|]. intros f1 r1 H1 N1. exists f1. exact H1.
      * (* EIf *) inv_bind H N.
        -- destruct (IHe _ _ _ _ Ha) as [f1 H1]; [discriminate|].
           assert (T : tail_ok (if truthy (fst a) then e2 else e3) env (snd a) r).
           { destruct (truthy (fst a)); apply IHt; assumption. }
           unfold tail_ok in *. destruct r as [[[v|fe args env'] s']|k s'|]; auto.
           ++ destruct T as [f2 H2]. exists (S (Nat.max f1 f2)). rewrite deval_S.
              rewrite (deval_up f1 _ _ _ _ _ H1) by (try discriminate; lia). cbn [bind].
              destruct (truthy (fst a)); apply (deval_up f2); try assumption; try discriminate; lia.
           ++ destruct T as [E K]. split; [assumption|]. intros f3 r1 H3 N3. destruct (K _ _ H3 N3) as [f2 H2].
              exists (S (Nat.max f1 f2)). rewrite deval_S.
              rewrite (deval_up f1 _ _ _ _ _ H1) by (try discriminate; lia). cbn [bind].
              destruct (truthy (fst a)); apply (deval_up f2); try assumption; lia.
           ++ destruct T as [f2 H2]. exists (S (Nat.max f1 f2)). rewrite deval_S.
              rewrite (deval_up f1 _ _ _ _ _ H1) by (try discriminate; lia). cbn [bind].
              destruct (truthy (fst a)); apply (deval_up f2); try assumption; try discriminate; lia.
        -- destruct (IHe _ _ _ _ Ha) as [f1 H1]; [discriminate|]. rewrite Hk. unfold tail_ok. exists (S f1). rewrite deval_S. rewrite H1. reflexivity.
    + (* apply *)
      intros fv vs s r H N. rewrite tapply_S in H. destruct fv.
      1,2,4,5: (exists 1; exact H).
      * (* closure *)
        destruct (negb (List.length ps =? List.length vs)) eqn:AR.
        { exists 1. rewrite dapply_S. rewrite AR. exact H. }
        set (a := snd (alloc s {| parent := Some env; defs := combine ps vs |})) in *.
        set (s1 := fst (alloc s {| parent := Some env; defs := combine ps vs |})) in *.
        destruct body as [|b0 body].
        { cbn [tseq bind fst snd] in H. exists 1. rewrite dapply_S. rewrite AR. exact H. }
        inv_bind H N.
        -- assert (NE : b0 :: body <> []) by discriminate.
           pose proof (tseq_ok _ _ IHe IHt _ _ _ _ NE Ha) as S1. unfold seq_ok in S1.
           destruct a0 as [[v|fe args env'] s2]; cbn [fst snd] in Hk.
           ++ destruct S1 as [f1 H1]; [discriminate|]. exists (S f1). rewrite dapply_S. rewrite AR. fold a s1. rewrite H1. exact Hk.
           ++ destruct S1 as [E K]; [discriminate|]. subst env'.
              (* the continuation is a direct evaluation of (fe args) *)
              assert (exists f1, deval f1 (EApp fe args) a s2 = r) as [f1 H1].
              { inv_bind Hk N.
                - destruct (IHe _ _ _ _ Ha0) as [g1 G1]; [discriminate|]. inv_bind Hk0 N.
                  + destruct (evlist_ex _ IHe _ _ _ _ Ha1) as [g2 G2]; [discriminate|].
                    destruct (IHa _ _ _ _ Hk1 N) as [g3 G3].
                    exists (S (Nat.max g1 (Nat.max g2 g3))). rewrite deval_S.
                    rewrite (deval_up g1 _ _ _ _ _ G1) by (try discriminate; lia). cbn [bind].
                    rewrite (evlist_up g2 _ _ _ _ _ G2) by (try discriminate; lia). cbn [bind].
                    apply (dapply_up g3); [assumption|assumption|lia].
                  + destruct (evlist_ex _ IHe _ _ _ _ Ha1) as [g2 G2]; [discriminate|].
                    exists (S (Nat.max g1 g2)). rewrite deval_S.
                    rewrite (deval_up g1 _ _ _ _ _ G1) by (try discriminate; lia). cbn [bind].
                    rewrite (evlist_up g2 _ _ _ _ _ G2) by (try discriminate; lia). cbn [bind]. congruence.
                - destruct (IHe _ _ _ _ Ha0) as [g1 G1]; [discriminate|]. exists (S g1). rewrite deval_S. rewrite G1. cbn [bind]. congruence. }
              destruct (K _ _ H1 N) as [f2 H2]. exists (S f2). rewrite dapply_S. rewrite AR. fold a s1. exact H2.
        -- assert (NE : b0 :: body <> []) by discriminate.
           assert (S1 := tseq_ok _ _ IHe IHt _ _ _ _ NE Ha); specialize (S1 ltac:(discriminate)). unfold seq_ok in S1. destruct S1 as [f1 H1].
           exists (S f1). rewrite dapply_S. rewrite AR. fold a s1. rewrite H1. congruence.
Qed.
Print Assumptions tramp_sound.
